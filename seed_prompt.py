import json,sys
pid=sys.argv[1]
for l in open('/verif/properties.jsonl'):
    p=json.loads(l)
    if p['id']==pid:
        break
print(f"""You are helping test a verification effort by playing the role of a developer who introduces a subtle regression into a Go library.

The library is bluenviron/gohlslib (HLS muxer/client). You have your own scratch git worktree of it at /tmp/seed_{pid} (work ONLY there; never touch /repo or /verif; do not read anything under /verif). The sandbox has no network. Use these environment variables for every go command: `export GOFLAGS=-mod=mod GOPROXY=off GOSUMDB=off GOTOOLCHAIN=local`. The existing test suite is run with `cd /tmp/seed_{pid} && go test -vet=off -count=1 -timeout 10m . ./pkg/...` (takes about 10 s). (The worktree may show deleted files named verif_*.go in `git status`; ignore that, it is unrelated.)

The property you must break (read it carefully; it is also in /tmp/seed_{pid}_out/property.txt):

{p['id']}: {p['title']}. {p['statement']}

(Quantified over: {p['quantifier']['text']})

Your task: make ONE small, realistic change to the library's non-test source code (the kind of thing a plausible refactor, "optimisation", clean-up or off-by-one could introduce) that BREAKS this property while:
  (a) the code still compiles,
  (b) the entire existing test suite still passes (run it and confirm),
  (c) the breakage needs something specific to manifest - a particular interleaving, a crash or fault at a particular point, a multi-step sequence of operations, an unusual input, or two cooperating sites that each look fine alone - NOT something ordinary use would expose at once.

Then write a demonstration: a Go test file (internal test in the package you changed, e.g. seed_demo_test.go next to the changed file) that FAILS with your change and PASSES without it (verify both: use `git stash` or apply/revert your patch to check). The demo must be deterministic and finish in under 30 s.

Deliverables, all written to /tmp/seed_{pid}_out/:
  - patch.diff : `git diff` of ONLY the library source file(s) you changed (not the demo test, not any verif_*.go file)
  - the demo test file (copy of it)
  - meta.json : {{"property":"{pid}","what_changed":"...","needs_to_manifest":"...","commands_run":["..."],"demo_fails_with_patch":true,"demo_passes_without_patch":true,"suite_passes_with_patch":true}}
Leave the worktree with your patch applied and the demo test present. In your final answer, summarise the change in 3-5 sentences, including file and function names.""")
