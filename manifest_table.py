# Table of claimed properties; MANIFEST.json is generated from this by mkmanifest.py.

CLAIMED = {
    "C20": {
        "text": "Full functional contracts on clientSegmentQueue.push/pull/waitUntilSizeIsBelow are discharged for all queue contents and all entry states: push appends at the tail, pull removes the head (FIFO, exactly once), waitUntilSizeIsBelow returns true only after observing len<=n under the lock; lock balance on every exit path; every access to queue/didPush/didPull happens with the mutex held (guarded_by), and the channel a waiter blocks on is read in the critical section that observed the blocking condition; the notifier closes exactly the channel current at its critical section and replaces it. From these per-function obligations the schedule-universal statement (no lost wake-up, no race on the guarded fields) follows by the standard monitor argument, which is not mechanised.",
        "note": "Not decided: exhaustive interleaving enumeration, wall-clock promptness, the bounded look-ahead of runTraditional as a whole-history property (only its per-iteration step). Interference is modelled by havocking the guarded fields at every lock acquisition (A-MON).",
    },
}

NOT_APPLICABLE = {
}
