package main

// Forward symbolic execution of go/ssa functions with state merging at join
// points and loop cutting at invariants. Equivalent to weakest preconditions
// over the passified acyclic CFG; every obligation becomes one SMT query.

import (
	"os"
	"fmt"
	"go/constant"
	"go/token"
	"go/types"
	"regexp"
	"sort"
	"strings"

	"golang.org/x/tools/go/ssa"
)

// Loc is a statically known memory location behind an SSA pointer value.
type Loc struct {
	kind   string     // field | elem | cell | global
	sv     string     // state variable name holding the array
	base   string     // ref (field, cell) or array id (elem)
	idx    string     // element index (elem)
	typ    types.Type // type of the stored value
	sub    bool       // location is an embedded struct: its "address" is a sub-object ref
	subRef string
	space  string // "" / "F": heap; "V": value space (struct values and non-escaping struct locals)
}

type deferRec struct {
	instr *ssa.Defer
	reg   string // Bool term: registered on this path
	args  []string
	site  int
}

type Frame struct {
	fn      *ssa.Function
	env     map[ssa.Value]string
	locs    map[ssa.Value]*Loc
	tuples  map[ssa.Value][]string
	depth   int
	id      int
	free    map[*ssa.FreeVar]string // closure bindings (terms)
	freeLoc map[*ssa.FreeVar]*Loc
	// provenance (in the terms of the function under verification) of the arguments bound to the parameters
	// of an inlined callee, by parameter name
	paramProv map[string]string
	defers  []*deferRec
	top     bool
	// for invariants / spec evaluation
	rets     []retRec
	specEnv  map[string]specVal // extra names (entry values)
	closures map[ssa.Value]*ssa.MakeClosure
	curBlock *ssa.BasicBlock
}

type retRec struct {
	st   *State
	vals []string
}

func (vc *VC) newFrame(fn *ssa.Function, depth int) *Frame {
	vc.frames++
	return &Frame{fn: fn, env: map[ssa.Value]string{}, locs: map[ssa.Value]*Loc{}, tuples: map[ssa.Value][]string{},
		depth: depth, id: vc.frames, free: map[*ssa.FreeVar]string{}, freeLoc: map[*ssa.FreeVar]*Loc{},
		closures: map[ssa.Value]*ssa.MakeClosure{}}
}

// ------------------------------------------------------------------ CFG helpers

func rpo(fn *ssa.Function) []*ssa.BasicBlock {
	seen := map[*ssa.BasicBlock]bool{}
	var post []*ssa.BasicBlock
	var dfs func(b *ssa.BasicBlock)
	dfs = func(b *ssa.BasicBlock) {
		seen[b] = true
		for _, s := range b.Succs {
			if !seen[s] {
				dfs(s)
			}
		}
		post = append(post, b)
	}
	dfs(fn.Blocks[0])
	if fn.Recover != nil && !seen[fn.Recover] {
		// recover block: not executed in our model (panics are obligations)
		_ = fn.Recover
	}
	for i, j := 0, len(post)-1; i < j; i, j = i+1, j-1 {
		post[i], post[j] = post[j], post[i]
	}
	return post
}

func isBackEdge(from, to *ssa.BasicBlock) bool {
	return to.Dominates(from)
}

// loopBody returns the blocks of the natural loop with header h.
func loopBody(h *ssa.BasicBlock) map[*ssa.BasicBlock]bool {
	body := map[*ssa.BasicBlock]bool{h: true}
	var stack []*ssa.BasicBlock
	for _, p := range h.Preds {
		if isBackEdge(p, h) && !body[p] {
			body[p] = true
			stack = append(stack, p)
		}
	}
	for len(stack) > 0 {
		b := stack[len(stack)-1]
		stack = stack[:len(stack)-1]
		for _, p := range b.Preds {
			if !body[p] {
				body[p] = true
				stack = append(stack, p)
			}
		}
	}
	return body
}

func isLoopHeader(b *ssa.BasicBlock) bool {
	for _, p := range b.Preds {
		if isBackEdge(p, b) {
			return true
		}
	}
	return false
}

// loopOrdinals numbers loop headers in source order (by position of the header's first
// instruction with a valid position; falls back to block index).
func loopOrdinals(fn *ssa.Function) map[*ssa.BasicBlock]int {
	var hs []*ssa.BasicBlock
	for _, b := range fn.Blocks {
		if isLoopHeader(b) {
			hs = append(hs, b)
		}
	}
	posOf := func(b *ssa.BasicBlock) token.Pos {
		best := token.NoPos
		body := loopBody(b)
		for bb := range body {
			for _, in := range bb.Instrs {
				if p := in.Pos(); p.IsValid() && (best == token.NoPos || p < best) {
					best = p
				}
			}
		}
		return best
	}
	sort.SliceStable(hs, func(i, j int) bool {
		pi, pj := posOf(hs[i]), posOf(hs[j])
		if pi == pj {
			return hs[i].Index < hs[j].Index
		}
		return pi < pj
	})
	m := map[*ssa.BasicBlock]int{}
	for i, h := range hs {
		m[h] = i + 1
	}
	return m
}

// ------------------------------------------------------------------ function execution

// execFunction symbolically executes fn from state st with the given argument terms.
// It returns the merged exit state and result terms. Obligations met on the way are recorded.
func (vc *VC) execFunction(fr *Frame, st *State, args []string) (*State, []string) {
	fn := fr.fn
	if len(fn.Blocks) == 0 {
		vc.unsupportedf("function %s has no body", fn.String())
		return st, nil
	}
	for i, p := range fn.Params {
		fr.env[p] = args[i]
	}
	loops := loopOrdinals(fn)
	order := rpo(fn)
	in := map[*ssa.BasicBlock][]edgeState{}
	in[fn.Blocks[0]] = []edgeState{{from: nil, st: st}}

	for _, b := range order {
		edges := in[b]
		if len(edges) == 0 {
			continue // unreachable
		}
		var cur *State
		if isLoopHeader(b) {
			cur = vc.enterLoop(fr, b, edges, loops[b])
		} else {
			sts := make([]*State, len(edges))
			for i, e := range edges {
				sts[i] = e.st
			}
			cur = vc.merge(sts)
			// phis
			for _, instr := range b.Instrs {
				phi, ok := instr.(*ssa.Phi)
				if !ok {
					break
				}
				vc.bindPhi(fr, phi, b, edges)
			}
		}
		vc.execBlock(fr, b, cur, in, loops)
	}
	// merge returns
	if len(fr.rets) == 0 {
		return &State{pc: "false", vars: st.vars}, make([]string, fn.Signature.Results().Len())
	}
	sts := make([]*State, len(fr.rets))
	for i, r := range fr.rets {
		sts[i] = r.st
	}
	out := vc.merge(sts)
	nres := fn.Signature.Results().Len()
	res := make([]string, nres)
	for k := 0; k < nres; k++ {
		pcs := make([]string, len(fr.rets))
		vals := make([]string, len(fr.rets))
		for i, r := range fr.rets {
			pcs[i] = r.st.pc
			vals[i] = r.vals[k]
		}
		res[k] = vc.def(vc.sortOf(fn.Signature.Results().At(k).Type()), iteChain(pcs, vals), "ret")
		rt := fn.Signature.Results().At(k).Type()
		if isStringType(rt) || vc.sortOf(rt) == "Slice" {
			var alts []*Shape
			known := false
			for _, v := range vals {
				if _, ok := vc.shapes[v]; ok {
					known = true
				}
				alts = append(alts, vc.shapeOf(v))
			}
			if os.Getenv("GVC_DBG_WRAP") != "" {
				fmt.Fprintf(os.Stderr, "DBG ret %s depth=%d params=%d prov=%v known=%v\n", fn.Name(), fr.depth, len(fn.Params), fr.paramProv, known)
			}
			wrap := fr.depth > 0 && isStringType(rt) && len(fn.Params) == 1 && fr.paramProv[fn.Params[0].Name()] != ""
			if known || wrap {
				sh := shAlt(alts...)
				if fr.depth > 0 && len(fn.Params) == 1 && !hasProvAtom(sh) && hasValueOrChoice(sh) && fr.paramProv[fn.Params[0].Name()] != "" {
					// a helper that maps its only argument to a string without naming a field itself (a choice between
					// literals, a formatted number): its whole result is a value of that argument
					if sh.K == "alt" {
						sh = &Shape{K: "alt", Alts: sh.Alts, Guard: sh.Guard, Src: fr.paramProv[fn.Params[0].Name()]}
					} else {
						sh = &Shape{K: "alt", Alts: []*Shape{sh}, Src: fr.paramProv[fn.Params[0].Name()]}
					}
				}
				vc.setShape(res[k], sh)
			}
		}
	}
	return out, res
}

type edgeState struct {
	from *ssa.BasicBlock
	st   *State
}

func (vc *VC) bindPhi(fr *Frame, phi *ssa.Phi, b *ssa.BasicBlock, edges []edgeState) {
	pcs := make([]string, 0, len(edges))
	vals := make([]string, 0, len(edges))
	for _, e := range edges {
		idx := predIndex(b, e.from)
		pcs = append(pcs, e.st.pc)
		vals = append(vals, vc.value(fr, e.st, phi.Edges[idx]))
	}
	fr.env[phi] = vc.def(vc.sortOf(phi.Type()), iteChain(pcs, vals), "phi_"+phi.Comment)
	if isStringType(phi.Type()) {
		alts := make([]*Shape, len(vals))
		for i, v := range vals {
			alts[i] = vc.shapeOf(v)
		}
		sh := shAlt(alts...)
		if sh.K == "alt" && len(alts) > 1 {
			sh = &Shape{K: "alt", Alts: alts, Guard: fr.id*100000 + b.Index + 1}
		}
		vc.setShape(fr.env[phi], sh)
	}
}

func predIndex(b, from *ssa.BasicBlock) int {
	for i, p := range b.Preds {
		if p == from {
			return i
		}
	}
	return 0
}

// enterLoop handles a loop header: checks the invariant on entry, havocs what the loop
// may modify, assumes the invariant, and returns the state for an arbitrary iteration.
// iterOfLoop: the map iteration driven by the loop with header h (iterpos()/iterlen()/iterkey() in the
// invariants of that loop refer to it, whatever iteration was started last).
func (vc *VC) iterOfLoop(h *ssa.BasicBlock) *mapIter {
	for _, instr := range h.Instrs {
		if nx, ok := instr.(*ssa.Next); ok {
			if rng, ok := nx.Iter.(*ssa.Range); ok {
				if mi, ok := vc.iters[rng]; ok {
					return mi
				}
			}
		}
	}
	return nil
}

func (vc *VC) enterLoop(fr *Frame, h *ssa.BasicBlock, edges []edgeState, ord int) *State {
	if mi := vc.iterOfLoop(h); mi != nil {
		vc.lastIter = mi
	}
	var entryEdges []edgeState
	for _, e := range edges {
		if !isBackEdge(e.from, h) {
			entryEdges = append(entryEdges, e)
		}
	}
	sts := make([]*State, len(entryEdges))
	for i, e := range entryEdges {
		sts[i] = e.st
	}
	pre := vc.merge(sts)
	// phi values on entry
	entryPhi := map[*ssa.Phi]string{}
	for _, instr := range h.Instrs {
		phi, ok := instr.(*ssa.Phi)
		if !ok {
			break
		}
		pcs := []string{}
		vals := []string{}
		for _, e := range entryEdges {
			pcs = append(pcs, e.st.pc)
			vals = append(vals, vc.value(fr, e.st, phi.Edges[predIndex(h, e.from)]))
		}
		entryPhi[phi] = vc.def(vc.sortOf(phi.Type()), iteChain(pcs, vals), "phi0_"+phi.Comment)
	}
	if vc.loopEntryVals == nil {
		vc.loopEntryVals = map[loopKey]map[*ssa.Phi]string{}
	}
	vc.loopEntryVals[loopKey{fr.fn, ord}] = entryPhi
	lc := vc.loopContract(fr, ord)
	// engine-supplied invariant of every range-over-slice loop: the hidden index starts at -1 and only grows
	for _, instr := range h.Instrs {
		phi, ok := instr.(*ssa.Phi)
		if !ok {
			break
		}
		if phi.Comment == "rangeindex" {
			if lc == nil {
				lc = &LoopContract{}
				vc.autoLoops[loopKey{fr.fn, ord}] = lc
			}
			has := false
			for _, inv := range lc.Invariants {
				if inv == "-1 <= ri" {
					has = true
				}
			}
			if !has {
				lc.Invariants = append([]string{"-1 <= ri"}, lc.Invariants...)
			}
		}
	}
	// invariant on entry
	for phi, v := range entryPhi {
		fr.env[phi] = v
	}
	if lc != nil {
		for i, inv := range lc.Invariants {
			t, err := vc.specBool(fr, pre, inv, h)
			if err != nil {
				vc.unsupportedf("loop %d invariant %d of %s: %v", ord, i+1, fr.fn.Name(), err)
				continue
			}
			vc.oblige(pre, "invariant-entry", fmt.Sprintf("%s.loop%d.%d", fnTag(fr), ord, i+1),
				"loop invariant holds on entry: "+inv, t, firstPos(h))
		}
	}
	// havoc
	cur := pre.clone()
	hpc := vc.fresh("Bool", "pc_loop")
	vc.fact("true", fmt.Sprintf("(=> %s %s)", hpc, pre.pc))
	cur.pc = hpc
	body := loopBody(h)
	mods := vc.modSetBlocks(fr.fn, body)
	if mods["L|*"] {
		var base []string
		for k := range vc.svSort {
			if !strings.HasPrefix(k, "L|") && !strings.HasPrefix(k, "G_defer_") {
				base = append(base, k)
			}
		}
		for _, k := range base {
			lk := "L|" + k
			if _, ok := vc.svSort[lk]; !ok {
				vc.svSort[lk] = vc.svSort[k]
				vc.svInit[lk] = vc.svInit[k]
			}
			mods[lk] = true
		}
	}
	// calls in the loop body: the ghost recorders of exactly those call events advance
	// (all of them when the body may call something unknown)
	for k := range vc.svSort {
		isEv := strings.HasPrefix(k, "G_calls_") || strings.HasPrefix(k, "G_arg_") || strings.HasPrefix(k, "G_sum_")
		if !isEv {
			continue
		}
		if mods["*"] {
			mods[k] = true
			continue
		}
		for m := range mods {
			if !strings.HasPrefix(m, "EV|") {
				continue
			}
			id := sanitizeID(m[3:])
			if k == "G_calls_"+id || strings.HasPrefix(k, "G_arg_"+id+"_") || strings.HasPrefix(k, "G_sum_"+id+"_") {
				// the prefix test must not confuse "f" with "f_g": the remainder is a parameter index
				rest := strings.TrimPrefix(strings.TrimPrefix(k, "G_arg_"+id+"_"), "G_sum_"+id+"_")
				if k == "G_calls_"+id || isDigits(rest) {
					mods[k] = true
				}
			}
		}
	}
	mk := make([]string, 0, len(mods))
	for k := range mods {
		mk = append(mk, k)
	}
	sort.Strings(mk)
	for _, k := range mk {
		if _, ok := vc.svSort[k]; !ok {
			continue
		}
		if strings.HasPrefix(k, "G_calls_") {
			old := vc.get(cur, k)
			nv := vc.fresh("Int", "havoc_calls")
			vc.fact(hpc, fmt.Sprintf("(>= %s %s)", nv, old))
			cur.vars[k] = nv
			continue
		}
		if strings.HasPrefix(k, "G_arg_") {
			// entries recorded before the loop are kept
			name := k[len("G_arg_"):]
			if i := strings.LastIndex(name, "_"); i >= 0 {
				name = name[:i]
			}
			oldA := vc.get(cur, k)
			na := vc.fresh(vc.svSort[k], "havoc_ev")
			if cnt, ok := vc.svSort["G_calls_"+name]; ok && cnt == "Int" {
				vc.fact(hpc, fmt.Sprintf("(forall ((k Int)) (! (=> (< k %s) (= (select %s k) (select %s k))) :pattern ((select %s k))))", vc.get(pre, "G_calls_"+name), na, oldA, na))
			}
			cur.vars[k] = na
			continue
		}
		if k == "G_alloc" {
			old := vc.get(cur, k)
			nv := vc.fresh("Int", "havoc_alloc")
			vc.fact(hpc, fmt.Sprintf("(>= %s %s)", nv, old))
			cur.vars[k] = nv
			continue
		}
		cur.vars[k] = vc.fresh(vc.svSort[k], "havoc_"+k)
	}
	for _, k := range mk {
		if _, ok := vc.svSort[k]; ok && k != "G_alloc" {
			vc.refAxiom(cur.pc, k, cur.vars[k], vc.allocBound(cur))
			vc.loopFrameFact(cur, k)
		}
	}
	for _, instr := range h.Instrs {
		phi, ok := instr.(*ssa.Phi)
		if !ok {
			break
		}
		// a phi whose back-edge operands are all the phi itself is loop-invariant
		invariantPhi := true
		for i, p := range h.Preds {
			if isBackEdge(p, h) && phi.Edges[i] != ssa.Value(phi) {
				invariantPhi = false
			}
		}
		if invariantPhi {
			fr.env[phi] = entryPhi[phi]
			continue
		}
		v := vc.fresh(vc.sortOf(phi.Type()), "loopv_"+phi.Comment)
		fr.env[phi] = v
		vc.typeFacts(cur, v, phi.Type())
		if isStringType(phi.Type()) {
			vc.n++
			id := vc.n
			if vc.loopEntry == nil {
				vc.loopEntry, vc.loopBacks, vc.loopRefOf, vc.loopShapes = map[int]*Shape{}, map[int][]*Shape{}, map[string]int{}, map[int]*Shape{}
			}
			vc.loopEntry[id] = vc.shapeOf(entryPhi[phi])
			vc.loopRefOf[v] = id
			vc.setShape(v, &Shape{K: "ref", ID: id})
		}
	}
	if lc != nil {
		for i, inv := range lc.Invariants {
			t, err := vc.specBool(fr, cur, inv, h)
			if err != nil {
				continue
			}
			_ = i
			vc.fact(cur.pc, t)
		}
		if lc.Decreases != "" {
			t, _, err := vc.specTerm(fr, cur, lc.Decreases, h)
			if err == nil {
				lc.measure0 = vc.def("Int", t, "measure")
			}
		}
	}
	return cur
}

func fnTag(fr *Frame) string {
	if fr.top {
		return ""
	}
	return fr.fn.Name()
}

func firstPos(b *ssa.BasicBlock) token.Pos {
	for _, in := range b.Instrs {
		if in.Pos().IsValid() {
			return in.Pos()
		}
	}
	return token.NoPos
}

// backEdge checks invariant preservation for the edge from -> h.
func (vc *VC) backEdge(fr *Frame, from, h *ssa.BasicBlock, st *State, ord int) {
	if mi := vc.iterOfLoop(h); mi != nil {
		saved := vc.lastIter
		vc.lastIter = mi
		defer func() { vc.lastIter = saved }()
	}
	// string shapes of loop-carried strings
	for _, instr := range h.Instrs {
		phi, ok := instr.(*ssa.Phi)
		if !ok {
			break
		}
		if !isStringType(phi.Type()) {
			continue
		}
		if id, ok := vc.loopRefOf[fr.env[phi]]; ok {
			bv := vc.value(fr, st, phi.Edges[predIndex(h, from)])
			vc.loopBacks[id] = append(vc.loopBacks[id], vc.shapeOf(bv))
		}
	}
	lc := vc.loopContract(fr, ord)
	if lc == nil {
		return
	}
	saved := map[*ssa.Phi]string{}
	idx := predIndex(h, from)
	for _, instr := range h.Instrs {
		phi, ok := instr.(*ssa.Phi)
		if !ok {
			break
		}
		saved[phi] = fr.env[phi]
	}
	newv := map[*ssa.Phi]string{}
	for phi := range saved {
		newv[phi] = vc.value(fr, st, phi.Edges[idx])
	}
	// vacuity guard: the body can be executed from a head state that is not the entry state (some loop
	// variable differs from its entry value), i.e. the invariants do not silently pin the loop to its
	// first iteration
	if ev, ok := vc.loopEntryVals[loopKey{fr.fn, ord}]; ok && vc.fc != nil {
		var neqs []string
		for phi, head := range saved {
			if e, ok := ev[phi]; ok && e != head && vc.sortOf(phi.Type()) != "Slice" && vc.sortOf(phi.Type()) != "Iface" {
				neqs = append(neqs, fmt.Sprintf("(not (= %s %s))", head, e))
			}
		}
		if len(neqs) > 0 {
			sort.Strings(neqs)
			// one pair of probes per back edge; a loop is reported as pinned only when some back edge is
			// reachable and none is reachable from a later iteration (grouped in main.go)
			vc.cover(st, fmt.Sprintf("%s.loop%d.backedge.from%d", fnTag(fr), ord, from.Index), "this back edge of the loop is reachable under the precondition", firstPos(from))
			c2 := st.clone()
			c2.pc = vc.def("Bool", fmt.Sprintf("(and %s (or %s))", st.pc, strings.Join(neqs, " ")), "pc_iter2")
			vc.cover(c2, fmt.Sprintf("%s.loop%d.later-iteration.from%d", fnTag(fr), ord, from.Index), "the loop body can run from a head state other than the entry state (the invariants do not pin the loop to its first iteration)", firstPos(from))
		}
	}
	for phi, v := range newv {
		fr.env[phi] = v
	}
	for i, inv := range lc.Invariants {
		t, err := vc.specBool(fr, st, inv, h)
		if err != nil {
			continue
		}
		vc.oblige(st, "invariant-preserved", fmt.Sprintf("%s.loop%d.%d.from%d", fnTag(fr), ord, i+1, from.Index),
			"loop invariant is preserved: "+inv, t, firstPos(from))
	}
	if lc.Decreases != "" && lc.measure0 != "" {
		t, _, err := vc.specTerm(fr, st, lc.Decreases, h)
		if err == nil {
			vc.oblige(st, "decreases", fmt.Sprintf("%s.loop%d.from%d", fnTag(fr), ord, from.Index),
				"loop measure decreases and is bounded below: "+lc.Decreases,
				fmt.Sprintf("(and (>= %s 0) (< %s %s))", lc.measure0, t, lc.measure0), firstPos(from))
		}
	}
	for phi, v := range saved {
		fr.env[phi] = v
	}
}

type loopKey struct {
	fn  *ssa.Function
	ord int
}

func (vc *VC) loopContract(fr *Frame, ord int) *LoopContract {
	if lc, ok := vc.autoLoops[loopKey{fr.fn, ord}]; ok {
		return lc
	}
	var fc *FuncContract
	if fr.top {
		fc = vc.fc
	} else {
		fc = vc.eng.contracts.lookupFn(fr.fn)
	}
	if fc == nil {
		return nil
	}
	return fc.Loops[ord]
}

// execBlock executes the non-phi instructions of b and distributes states to successors.
func (vc *VC) execBlock(fr *Frame, b *ssa.BasicBlock, st *State, in map[*ssa.BasicBlock][]edgeState, loops map[*ssa.BasicBlock]int) {
	fr.curBlock = b
	for _, instr := range b.Instrs {
		if _, ok := instr.(*ssa.Phi); ok {
			continue
		}
		switch x := instr.(type) {
		case *ssa.If:
			c := vc.value(fr, st, x.Cond)
			t := st.clone()
			t.pc = vc.def("Bool", fmt.Sprintf("(and %s %s)", st.pc, c), "pc")
			f := st.clone()
			f.pc = vc.def("Bool", fmt.Sprintf("(and %s (not %s))", st.pc, c), "pc")
			vc.flow(fr, b, b.Succs[0], t, in, loops)
			vc.flow(fr, b, b.Succs[1], f, in, loops)
			return
		case *ssa.Jump:
			vc.flow(fr, b, b.Succs[0], st, in, loops)
			return
		case *ssa.Return:
			vals := make([]string, len(x.Results))
			for i, r := range x.Results {
				vals[i] = vc.value(fr, st, r)
			}
			fr.rets = append(fr.rets, retRec{st: st, vals: vals})
			if fr.top && vc.inSpec == 0 {
				vc.cover(st, fmt.Sprintf("return%d", vc.ordinal("cover/return")), "this return statement is reachable under the precondition", x.Pos())
			}
			return
		case *ssa.Panic:
			vc.oblige(st, "panic", fmt.Sprintf("%s%d", fnTagDot(fr), vc.ordinal("panic")), "explicit panic is unreachable", "false", x.Pos())
			return
		default:
			vc.execInstr(fr, st, instr)
		}
	}
}

func fnTagDot(fr *Frame) string {
	if fr.top {
		return ""
	}
	return fr.fn.Name() + "."
}

func (vc *VC) flow(fr *Frame, from, to *ssa.BasicBlock, st *State, in map[*ssa.BasicBlock][]edgeState, loops map[*ssa.BasicBlock]int) {
	if isBackEdge(from, to) {
		vc.backEdge(fr, from, to, st, loops[to])
		return
	}
	in[to] = append(in[to], edgeState{from: from, st: st})
}

// ------------------------------------------------------------------ values

func (vc *VC) value(fr *Frame, st *State, v ssa.Value) string {
	if t, ok := fr.env[v]; ok {
		return t
	}
	switch x := v.(type) {
	case *ssa.Const:
		return vc.constTerm(x)
	case *ssa.Function:
		return vc.funcRef(x)
	case *ssa.Global:
		// address of a global: an opaque non-nil ref
		name := "gaddr_" + sanitizeID(x.String())
		vc.declareOnce(name, "Int", fmt.Sprintf("(assert (> %s 0))", name))
		return name
	case *ssa.FreeVar:
		if t, ok := fr.free[x]; ok {
			return t
		}
		t := vc.fresh(vc.sortOf(x.Type()), "free_"+x.Name())
		fr.free[x] = t
		vc.typeFacts(st, t, x.Type())
		if _, isPtr := x.Type().Underlying().(*types.Pointer); isPtr {
			vc.fact(st.pc, fmt.Sprintf("(> %s 0)", t))
		}
		return t
	case *ssa.Builtin:
		return "0"
	}
	// pointer with known location but never materialised
	if loc, ok := fr.locs[v]; ok {
		t := vc.materialize(fr, st, v, loc)
		fr.env[v] = t
		return t
	}
	if tup, ok := fr.tuples[v]; ok && len(tup) > 0 {
		return tup[0]
	}
	vc.unsupportedf("value %s (%T) in %s has no binding", v.Name(), v, fr.fn.Name())
	t := vc.fresh(vc.sortOf(v.Type()), "unk_"+v.Name())
	fr.env[v] = t
	return t
}

func (vc *VC) declareOnce(name, sortName, extra string) {
	if vc.declared == nil {
		vc.declared = map[string]bool{}
	}
	if vc.declared[name] {
		return
	}
	vc.declared[name] = true
	vc.decls = append(vc.decls, fmt.Sprintf("(declare-const %s %s)", name, sortName), extra)
}

func (vc *VC) funcRef(f *ssa.Function) string {
	name := "fn_" + sanitizeID(f.String())
	id := vc.eng.funcID(f)
	vc.declareOnce(name, "Int", fmt.Sprintf("(assert (= %s %d))", name, id))
	return name
}

func (vc *VC) constTerm(c *ssa.Const) string {
	t := c.Type()
	if c.Value == nil {
		return vc.zeroOf(t)
	}
	switch c.Value.Kind() {
	case constant.Bool:
		if constant.BoolVal(c.Value) {
			return "true"
		}
		return "false"
	case constant.Int:
		s := c.Value.ExactString()
		if vc.sortOf(t) == "Real" {
			return smtReal(s)
		}
		return smtInt(s)
	case constant.Float:
		if vc.sortOf(t) == "Int" {
			if i, ok := constant.Int64Val(constant.ToInt(c.Value)); ok {
				return smtInt(fmt.Sprint(i))
			}
		}
		r := constant.ToFloat(c.Value)
		num := constant.Num(r).ExactString()
		den := constant.Denom(r).ExactString()
		if den == "1" {
			return smtReal(num)
		}
		return fmt.Sprintf("(/ %s %s)", smtReal(num), smtReal(den))
	case constant.String:
		return vc.strLit(constant.StringVal(c.Value))
	}
	return vc.zeroOf(t)
}

func smtReal(s string) string {
	neg := strings.HasPrefix(s, "-")
	if neg {
		s = s[1:]
	}
	if !strings.Contains(s, ".") {
		s += ".0"
	}
	if neg {
		return "(- " + s + ")"
	}
	return s
}

// ------------------------------------------------------------------ memory

var aliasByteRe = regexp.MustCompile(`\bbyte\b`)
var aliasRuneRe = regexp.MustCompile(`\brune\b`)

// typeKey names a type; byte/uint8 and rune/int32 are the same types in Go and must share their heaps.
func typeKey(t types.Type) string {
	s := types.TypeString(t, func(p *types.Package) string { return p.Name() })
	s = aliasByteRe.ReplaceAllString(s, "uint8")
	return aliasRuneRe.ReplaceAllString(s, "int32")
}

func (vc *VC) fieldSV(structT types.Type, idx int) (string, types.Type) {
	st := structT.Underlying().(*types.Struct)
	f := st.Field(idx)
	name := "F_" + sanitizeID(typeKey(structT)) + "_" + f.Name()
	vc.svDeclareT(name, fmt.Sprintf("(Array Int %s)", vc.sortOf(f.Type())), f.Type(), 1, "")
	return name, f.Type()
}

// valSV: field array of struct *values* (immutable copies), kept apart from the heap arrays so that
// copying a struct value never touches the heap.
func (vc *VC) valSV(structT types.Type, idx int) string {
	st := structT.Underlying().(*types.Struct)
	f := st.Field(idx)
	name := "V_" + sanitizeID(typeKey(structT)) + "_" + f.Name()
	if _, ok := vc.svSort[name]; !ok {
		vc.svDeclareT(name, fmt.Sprintf("(Array Int %s)", vc.sortOf(f.Type())), f.Type(), 1, "")
		// the zero struct value is the value object 0
		vc.emit(fmt.Sprintf("(assert (= (select %s 0) %s))", vc.svInit[name], vc.zeroOf(f.Type())))
	}
	return name
}

func (vc *VC) cellSV(t types.Type) string {
	name := "C_" + sanitizeID(typeKey(t))
	vc.svDeclareT(name, fmt.Sprintf("(Array Int %s)", vc.sortOf(t)), t, 1, "")
	return name
}

func (vc *VC) elemSV(t types.Type) string {
	name := "E_" + sanitizeID(typeKey(t))
	vc.svDeclareT(name, fmt.Sprintf("(Array Int (Array Int %s))", vc.sortOf(t)), t, 2, "Int")
	return name
}

func isStructLike(t types.Type) bool {
	if isScalarStruct(t) {
		return false
	}
	_, ok := t.Underlying().(*types.Struct)
	return ok
}

// subOffset: offset of embedded struct field idx inside structT (DFS slot numbering).
func subOffset(structT types.Type, idx int) int {
	st := structT.Underlying().(*types.Struct)
	off := 1
	for i := 0; i < idx; i++ {
		ft := st.Field(i).Type()
		if isStructLike(ft) {
			off += 1 + structSlots(ft)
		}
	}
	return off
}

func structSlots(t types.Type) int {
	st, ok := t.Underlying().(*types.Struct)
	if !ok {
		return 0
	}
	n := 0
	for i := 0; i < st.NumFields(); i++ {
		ft := st.Field(i).Type()
		if isStructLike(ft) {
			n += 1 + structSlots(ft)
		}
	}
	return n
}

func (vc *VC) fieldLoc(base string, structT types.Type, idx int) *Loc {
	return vc.fieldLocSp(base, structT, idx, "F")
}

func (vc *VC) fieldLocSp(base string, structT types.Type, idx int, space string) *Loc {
	st := structT.Underlying().(*types.Struct)
	ft := st.Field(idx).Type()
	if isStructLike(ft) {
		off := subOffset(structT, idx)
		return &Loc{kind: "sub", typ: ft, sub: true, subRef: fmt.Sprintf("(+ %s %d)", base, off), base: base, space: space}
	}
	sv := vc.spaceSV(space, structT, idx)
	return &Loc{kind: "field", sv: sv, base: base, typ: ft, space: space}
}

func locSpace(loc *Loc) string {
	if loc.space == "V" {
		return "V"
	}
	return "F"
}

// locOfPointer gives the location an arbitrary pointer term of type *T refers to.
func (vc *VC) locOfPointer(ptr string, elem types.Type) *Loc {
	if isStructLike(elem) {
		return &Loc{kind: "sub", typ: elem, sub: true, subRef: ptr, base: ptr}
	}
	return &Loc{kind: "cell", sv: vc.cellSV(elem), base: ptr, typ: elem}
}

func (vc *VC) readLoc(st *State, loc *Loc) string {
	switch loc.kind {
	case "field", "cell":
		return fmt.Sprintf("(select %s %s)", vc.get(st, loc.sv), loc.base)
	case "elem":
		return fmt.Sprintf("(select (select %s %s) %s)", vc.get(st, loc.sv), loc.base, loc.idx)
	case "global":
		return vc.get(st, loc.sv)
	case "sub":
		// whole-struct read: copy out to a fresh value object (value space)
		v := vc.alloc(st, "structval")
		vc.copyStructSp(st, "V", v, locSpace(loc), loc.subRef, loc.typ)
		return v
	}
	panic("bad loc")
}

func (vc *VC) writeLoc(st *State, loc *Loc, val string) {
	switch loc.kind {
	case "field", "cell":
		vc.set(st, loc.sv, fmt.Sprintf("(store %s %s %s)", vc.get(st, loc.sv), loc.base, val))
	case "elem":
		arr := vc.get(st, loc.sv)
		vc.set(st, loc.sv, fmt.Sprintf("(store %s %s (store (select %s %s) %s %s))", arr, loc.base, arr, loc.base, loc.idx, val))
	case "global":
		vc.set(st, loc.sv, val)
	case "sub":
		vc.copyStructSp(st, locSpace(loc), loc.subRef, "V", val, loc.typ)
	}
}

func (vc *VC) spaceSV(space string, t types.Type, i int) string {
	if space == "V" {
		return vc.valSV(t, i)
	}
	sv, _ := vc.fieldSV(t, i)
	return sv
}

// copyStructSp copies every field of the struct at ref src (in srcSpace) to ref dst (in dstSpace).
func (vc *VC) copyStructSp(st *State, dstSpace, dst, srcSpace, src string, t types.Type) {
	s := t.Underlying().(*types.Struct)
	for i := 0; i < s.NumFields(); i++ {
		ft := s.Field(i).Type()
		if isStructLike(ft) {
			off := subOffset(t, i)
			vc.copyStructSp(st, dstSpace, fmt.Sprintf("(+ %s %d)", dst, off), srcSpace, fmt.Sprintf("(+ %s %d)", src, off), ft)
			continue
		}
		d := vc.spaceSV(dstSpace, t, i)
		sr := vc.spaceSV(srcSpace, t, i)
		vc.set(st, d, fmt.Sprintf("(store %s %s (select %s %s))", vc.get(st, d), dst, vc.get(st, sr), src))
	}
}

// copyStruct copies every field of the struct at ref src to ref dst.
func (vc *VC) copyStruct(st *State, dst, src string, t types.Type) {
	s := t.Underlying().(*types.Struct)
	for i := 0; i < s.NumFields(); i++ {
		ft := s.Field(i).Type()
		if isStructLike(ft) {
			off := subOffset(t, i)
			vc.copyStruct(st, fmt.Sprintf("(+ %s %d)", dst, off), fmt.Sprintf("(+ %s %d)", src, off), ft)
			continue
		}
		sv, _ := vc.fieldSV(t, i)
		vc.set(st, sv, fmt.Sprintf("(store %s %s (select %s %s))", vc.get(st, sv), dst, vc.get(st, sv), src))
	}
}

func (vc *VC) zeroStruct(st *State, dst string, t types.Type) {
	vc.zeroStructSp(st, dst, t, "F")
}

func (vc *VC) zeroStructSp(st *State, dst string, t types.Type, space string) {
	s := t.Underlying().(*types.Struct)
	for i := 0; i < s.NumFields(); i++ {
		ft := s.Field(i).Type()
		if isStructLike(ft) {
			vc.zeroStructSp(st, fmt.Sprintf("(+ %s %d)", dst, subOffset(t, i)), ft, space)
			continue
		}
		sv := vc.spaceSV(space, t, i)
		vc.set(st, sv, fmt.Sprintf("(store %s %s %s)", vc.get(st, sv), dst, vc.zeroOf(ft)))
	}
}

// materialize turns a location into a pointer term (for pointers that escape).
func (vc *VC) materialize(fr *Frame, st *State, v ssa.Value, loc *Loc) string {
	switch loc.kind {
	case "sub":
		return vc.def("Int", loc.subRef, "subref")
	case "cell":
		return loc.base
	case "field", "elem", "global":
		// address of a scalar field/element escapes: model as a snapshot cell
		p := vc.alloc(st, "addrof")
		cell := vc.cellSV(loc.typ)
		vc.set(st, cell, fmt.Sprintf("(store %s %s %s)", vc.get(st, cell), p, vc.readLoc(st, loc)))
		vc.assume("an escaping address of a scalar field or slice element is modelled as a pointer to a snapshot copy of its value")
		return p
	}
	panic("bad loc")
}

func (vc *VC) locOf(fr *Frame, st *State, v ssa.Value) *Loc {
	if loc, ok := fr.locs[v]; ok {
		return loc
	}
	if g, ok := v.(*ssa.Global); ok {
		elem := g.Type().(*types.Pointer).Elem()
		if isStructLike(elem) {
			return vc.locOfPointer(vc.value(fr, st, v), elem)
		}
		name := "GV_" + sanitizeID(g.String())
		_, known := vc.svSort[name]
		vc.svDeclare(name, vc.sortOf(elem))
		if !known && vc.sortOf(elem) == "Iface" && g.Pkg != nil && !vc.eng.inModuleType(g.Type()) && !strings.HasPrefix(g.Pkg.Pkg.Path(), "github.com/bluenviron/gohlslib") && elem.String() == "error" {
			// sentinel errors of dependencies (io.EOF, ...) are non-nil
			vc.fact("true", fmt.Sprintf("(and (> (if_type %s) 0) (> (if_val %s) 0))", vc.svInit[name], vc.svInit[name]))
			vc.assume("T3 exported sentinel error variables of dependencies (" + g.String() + ") are non-nil")
		}
		return &Loc{kind: "global", sv: name, typ: elem}
	}
	if fv, ok := v.(*ssa.FreeVar); ok {
		if loc, ok := fr.freeLoc[fv]; ok {
			return loc
		}
	}
	pt, ok := v.Type().Underlying().(*types.Pointer)
	if !ok {
		panic("locOf: not a pointer: " + v.String())
	}
	return vc.locOfPointer(vc.value(fr, st, v), pt.Elem())
}

// loopFrameFact: at a loop head the heap arrays written by the loop are havocked; objects that existed at
// function entry and are not named in the function's modifies clause keep their entry contents (every
// write is separately checked against the modifies clause by a frame obligation, so this is the frame
// rule, not an extra assumption).
func (vc *VC) loopFrameFact(cur *State, k string) {
	if vc.fc == nil || vc.fc.ModifiesAll || vc.fc.NoFrame || vc.frameWhole == nil || vc.entry == nil {
		return
	}
	if vc.frameWhole[k] || strings.HasPrefix(k, "G_") || strings.HasPrefix(k, "L|") || strings.HasPrefix(k, "V_") || strings.HasPrefix(k, "GV_") {
		return
	}
	if !strings.HasPrefix(vc.svSort[k], "(Array Int ") {
		return
	}
	conds := []string{fmt.Sprintf("(< a %s)", vc.allocBound(vc.entry)), "(>= a 0)"}
	for _, o := range vc.frameObjs[k] {
		conds = append(conds, fmt.Sprintf("(not (= a %s))", o))
	}
	vc.fact(cur.pc, fmt.Sprintf("(forall ((a Int)) (! (=> (and %s) (= (select %s a) (select %s a))) :pattern ((select %s a))))",
		strings.Join(conds, " "), cur.vars[k], vc.get(vc.entry, k), cur.vars[k]))
}

func isDigits(s string) bool {
	if s == "" {
		return false
	}
	for _, c := range s {
		if c < '0' || c > '9' {
			return false
		}
	}
	return true
}
