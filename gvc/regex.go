package main

// A small regular-expression engine (parser -> NFA) and a language-inclusion decision
// procedure used for string-shape obligations ("the string this function returns, for every input,
// belongs to this regular language"). Back end name in the evidence: regincl.

import (
	"fmt"
	"sort"
	"strings"
)

type byteSet [4]uint64

func (s *byteSet) add(b byte)     { s[b>>6] |= 1 << (b & 63) }
func (s byteSet) has(b byte) bool { return s[b>>6]&(1<<(b&63)) != 0 }
func (s byteSet) empty() bool     { return s[0]|s[1]|s[2]|s[3] == 0 }
func (s byteSet) and(o byteSet) byteSet {
	return byteSet{s[0] & o[0], s[1] & o[1], s[2] & o[2], s[3] & o[3]}
}
func (s byteSet) not() byteSet { return byteSet{^s[0], ^s[1], ^s[2], ^s[3]} }
func (s byteSet) first() (byte, bool) {
	for i := 0; i < 256; i++ {
		if s.has(byte(i)) {
			return byte(i), true
		}
	}
	return 0, false
}

func setOf(bs ...byte) byteSet {
	var s byteSet
	for _, b := range bs {
		s.add(b)
	}
	return s
}

func rangeSet(lo, hi byte) byteSet {
	var s byteSet
	for i := int(lo); i <= int(hi); i++ {
		s.add(byte(i))
	}
	return s
}

// ---------------------------------------------------------------- NFA

type nfaTrans struct {
	set byteSet
	to  int
}

type nfa struct {
	eps   [][]int
	trans [][]nfaTrans
	start int
	acc   int
}

func newNFA() *nfa { return &nfa{} }

func (n *nfa) state() int {
	n.eps = append(n.eps, nil)
	n.trans = append(n.trans, nil)
	return len(n.eps) - 1
}

func (n *nfa) addEps(a, b int)                  { n.eps[a] = append(n.eps[a], b) }
func (n *nfa) addTrans(a int, s byteSet, b int) { n.trans[a] = append(n.trans[a], nfaTrans{s, b}) }

// fragment: (start, accept)
type frag struct{ s, a int }

func (n *nfa) lit(str string) frag {
	s := n.state()
	cur := s
	for i := 0; i < len(str); i++ {
		nx := n.state()
		n.addTrans(cur, setOf(str[i]), nx)
		cur = nx
	}
	return frag{s, cur}
}

func (n *nfa) set(bs byteSet) frag {
	s, a := n.state(), n.state()
	n.addTrans(s, bs, a)
	return frag{s, a}
}

func (n *nfa) cat(a, b frag) frag { n.addEps(a.a, b.s); return frag{a.s, b.a} }
func (n *nfa) alt(fs ...frag) frag {
	s, a := n.state(), n.state()
	for _, f := range fs {
		n.addEps(s, f.s)
		n.addEps(f.a, a)
	}
	return frag{s, a}
}
func (n *nfa) star(f frag) frag {
	s, a := n.state(), n.state()
	n.addEps(s, f.s)
	n.addEps(s, a)
	n.addEps(f.a, f.s)
	n.addEps(f.a, a)
	return frag{s, a}
}
func (n *nfa) empty() frag { s := n.state(); return frag{s, s} }

// ---------------------------------------------------------------- regex parser

type reParser struct {
	s    string
	pos  int
	n    *nfa
	defs map[string]string
}

func parseRegex(n *nfa, re string, defs map[string]string) (f frag, err error) {
	defer func() {
		if r := recover(); r != nil {
			err = fmt.Errorf("regex: %v", r)
		}
	}()
	p := &reParser{s: re, n: n, defs: defs}
	f = p.alt()
	if p.pos != len(p.s) {
		panic(fmt.Sprintf("unexpected %q at %d", p.s[p.pos], p.pos))
	}
	return f, nil
}

func (p *reParser) more() bool { return p.pos < len(p.s) }
func (p *reParser) peek() byte { return p.s[p.pos] }

func (p *reParser) alt() frag {
	fs := []frag{p.concat()}
	for p.more() && p.peek() == '|' {
		p.pos++
		fs = append(fs, p.concat())
	}
	if len(fs) == 1 {
		return fs[0]
	}
	return p.n.alt(fs...)
}

func (p *reParser) concat() frag {
	f := p.n.empty()
	for p.more() && p.peek() != '|' && p.peek() != ')' {
		f = p.n.cat(f, p.repeat())
	}
	return f
}

func (p *reParser) repeat() frag {
	start := p.pos
	f := p.atom()
	atomSrc := p.s[start:p.pos]
	for p.more() {
		switch p.peek() {
		case '*':
			p.pos++
			f = p.n.star(f)
		case '+':
			p.pos++
			g := p.reparse(atomSrc)
			f = p.n.cat(f, p.n.star(g))
		case '?':
			p.pos++
			f = p.n.alt(f, p.n.empty())
		case '{':
			end := strings.IndexByte(p.s[p.pos:], '}')
			if end < 0 {
				panic("unterminated {")
			}
			spec := p.s[p.pos+1 : p.pos+end]
			// {NAME} is a named fragment, handled in atom(); here only counts
			if len(spec) == 0 || spec[0] < '0' || spec[0] > '9' {
				return f
			}
			p.pos += end + 1
			lo, hi := 0, 0
			if i := strings.IndexByte(spec, ','); i >= 0 {
				fmt.Sscanf(spec[:i], "%d", &lo)
				if i+1 < len(spec) {
					fmt.Sscanf(spec[i+1:], "%d", &hi)
				} else {
					hi = -1
				}
			} else {
				fmt.Sscanf(spec, "%d", &lo)
				hi = lo
			}
			r := p.n.empty()
			for i := 0; i < lo; i++ {
				r = p.n.cat(r, p.reparse(atomSrc))
			}
			if hi < 0 {
				r = p.n.cat(r, p.n.star(p.reparse(atomSrc)))
			} else {
				for i := lo; i < hi; i++ {
					r = p.n.cat(r, p.n.alt(p.reparse(atomSrc), p.n.empty()))
				}
			}
			f = r
		default:
			return f
		}
	}
	return f
}

func (p *reParser) reparse(src string) frag {
	q := &reParser{s: src, n: p.n, defs: p.defs}
	return q.atom()
}

func (p *reParser) atom() frag {
	c := p.peek()
	switch c {
	case '(':
		p.pos++
		if strings.HasPrefix(p.s[p.pos:], "?:") {
			p.pos += 2
		}
		f := p.alt()
		if !p.more() || p.peek() != ')' {
			panic("missing )")
		}
		p.pos++
		return f
	case '[':
		return p.n.set(p.class())
	case '.':
		p.pos++
		return p.n.set(setOf('\n').not())
	case '{':
		end := strings.IndexByte(p.s[p.pos:], '}')
		if end < 0 {
			panic("unterminated {")
		}
		name := p.s[p.pos+1 : p.pos+end]
		def, ok := p.defs[name]
		if !ok {
			panic("unknown fragment {" + name + "}")
		}
		p.pos += end + 1
		q := &reParser{s: def, n: p.n, defs: p.defs}
		f := q.alt()
		if q.pos != len(q.s) {
			panic("bad fragment " + name)
		}
		return f
	case '\\':
		p.pos++
		return p.n.set(p.escape())
	default:
		p.pos++
		return p.n.set(setOf(c))
	}
}

func (p *reParser) escape() byteSet {
	c := p.peek()
	p.pos++
	switch c {
	case 'n':
		return setOf('\n')
	case 'r':
		return setOf('\r')
	case 't':
		return setOf('\t')
	case 'd':
		return rangeSet('0', '9')
	case 'x':
		var v int
		fmt.Sscanf(p.s[p.pos:p.pos+2], "%02x", &v)
		p.pos += 2
		return setOf(byte(v))
	}
	return setOf(c)
}

func (p *reParser) class() byteSet {
	p.pos++ // [
	neg := false
	if p.peek() == '^' {
		neg = true
		p.pos++
	}
	var s byteSet
	first := true
	for p.more() && (p.peek() != ']' || first) {
		first = false
		var lo byteSet
		var loB byte
		single := true
		if p.peek() == '\\' {
			p.pos++
			lo = p.escape()
			if b, ok := lo.first(); ok {
				loB = b
			}
			cnt := 0
			for i := 0; i < 256; i++ {
				if lo.has(byte(i)) {
					cnt++
				}
			}
			single = cnt == 1
		} else {
			loB = p.peek()
			lo = setOf(loB)
			p.pos++
		}
		if single && p.pos+1 < len(p.s) && p.peek() == '-' && p.s[p.pos+1] != ']' {
			p.pos++
			hiB := p.peek()
			if hiB == '\\' {
				p.pos++
				h := p.escape()
				hiB, _ = h.first()
			} else {
				p.pos++
			}
			lo = rangeSet(loB, hiB)
		}
		for i := 0; i < 4; i++ {
			s[i] |= lo[i]
		}
	}
	if !p.more() {
		panic("unterminated [")
	}
	p.pos++ // ]
	if neg {
		return s.not()
	}
	return s
}

// ---------------------------------------------------------------- inclusion

func (n *nfa) closure(set map[int]bool) {
	var stack []int
	for s := range set {
		stack = append(stack, s)
	}
	for len(stack) > 0 {
		s := stack[len(stack)-1]
		stack = stack[:len(stack)-1]
		for _, t := range n.eps[s] {
			if !set[t] {
				set[t] = true
				stack = append(stack, t)
			}
		}
	}
}

func keyOf(set map[int]bool) string {
	ks := make([]int, 0, len(set))
	for k := range set {
		ks = append(ks, k)
	}
	sort.Ints(ks)
	var b strings.Builder
	for _, k := range ks {
		fmt.Fprintf(&b, "%d,", k)
	}
	return b.String()
}

// alphabetClasses partitions the byte alphabet by the transition sets of both automata.
func alphabetClasses(ns ...*nfa) []byteSet {
	classes := []byteSet{setOf().not()}
	for _, n := range ns {
		for _, ts := range n.trans {
			for _, t := range ts {
				var next []byteSet
				for _, c := range classes {
					in := c.and(t.set)
					out := c.and(t.set.not())
					if !in.empty() {
						next = append(next, in)
					}
					if !out.empty() {
						next = append(next, out)
					}
				}
				classes = next
			}
		}
	}
	return classes
}

func (n *nfa) step(set map[int]bool, rep byte) map[int]bool {
	out := map[int]bool{}
	for s := range set {
		for _, t := range n.trans[s] {
			if t.set.has(rep) {
				out[t.to] = true
			}
		}
	}
	n.closure(out)
	return out
}

// included decides L(a) ⊆ L(b); when not, it returns a witness string in L(a) \ L(b).
func included(a *nfa, af frag, b *nfa, bf frag, maxStates int) (bool, string, error) {
	classes := alphabetClasses(a, b)
	reps := make([]byte, len(classes))
	for i, c := range classes {
		reps[i], _ = c.first()
	}
	type node struct {
		sa, sb map[int]bool
		word   string
	}
	sa := map[int]bool{af.s: true}
	a.closure(sa)
	sb := map[int]bool{bf.s: true}
	b.closure(sb)
	seen := map[string]bool{}
	queue := []node{{sa, sb, ""}}
	seen[keyOf(sa)+"|"+keyOf(sb)] = true
	for len(queue) > 0 {
		cur := queue[0]
		queue = queue[1:]
		if cur.sa[af.a] && !cur.sb[bf.a] {
			return false, cur.word, nil
		}
		for _, r := range reps {
			na := a.step(cur.sa, r)
			if len(na) == 0 {
				continue
			}
			nb := b.step(cur.sb, r)
			k := keyOf(na) + "|" + keyOf(nb)
			if seen[k] {
				continue
			}
			seen[k] = true
			if len(seen) > maxStates {
				return false, "", fmt.Errorf("inclusion check exceeded %d product states", maxStates)
			}
			queue = append(queue, node{na, nb, cur.word + string([]byte{r})})
		}
	}
	return true, "", nil
}
