package main

import (
	"fmt"
	"go/token"
	"go/types"
	"os"
	"regexp"
	"sort"
	"strings"
	"sync"
	"time"

	"golang.org/x/tools/go/packages"
	"golang.org/x/tools/go/ssa"
	"golang.org/x/tools/go/ssa/ssautil"
)

const modulePath = "github.com/bluenviron/gohlslib/v2"

type Engine struct {
	root         string
	fset         *token.FileSet
	prog         *ssa.Program
	pkgs         []*packages.Package
	spkgs        map[string]*ssa.Package
	contracts    *Contracts
	extraPrelude string

	mu       sync.Mutex
	typeIDs  map[string]int
	typeList []types.Type
	known    []types.Type
	maxKnown int
	funcIDs  map[*ssa.Function]int
	fnByKey  map[string]*ssa.Function
	loadSecs float64
	extCache map[string]*ssa.Function
}

func loadEngine(root string) (*Engine, error) {
	t0 := time.Now()
	cfg := &packages.Config{Mode: packages.LoadAllSyntax, Dir: root, BuildFlags: []string{"-tags=verif"},
		Env: append(os.Environ(), "GOFLAGS=-mod=mod", "GOPROXY=off", "GOSUMDB=off", "GOTOOLCHAIN=local")}
	pkgs, err := packages.Load(cfg, "./...")
	if err != nil {
		return nil, err
	}
	var errs []string
	var keep []*packages.Package
	for _, p := range pkgs {
		if strings.Contains(p.PkgPath, "/examples/") {
			continue
		}
		for _, e := range p.Errors {
			errs = append(errs, e.Error())
		}
		keep = append(keep, p)
	}
	if len(errs) > 0 {
		return nil, fmt.Errorf("package errors (the tree does not compile with -tags=verif):\n%s", strings.Join(errs, "\n"))
	}
	prog, spkgs := ssautil.AllPackages(keep, ssa.GlobalDebug)
	prog.Build()
	e := &Engine{root: root, prog: prog, pkgs: keep, spkgs: map[string]*ssa.Package{}, typeIDs: map[string]int{},
		funcIDs: map[*ssa.Function]int{}, fnByKey: map[string]*ssa.Function{}}
	if len(keep) > 0 {
		e.fset = keep[0].Fset
	}
	for _, sp := range spkgs {
		if sp != nil {
			e.spkgs[sp.Pkg.Path()] = sp
		}
	}
	// index functions by contract key
	for fn := range ssautil.AllFunctions(prog) {
		if !e.inModule(fn) {
			continue
		}
		if fn.Synthetic != "" && !strings.Contains(fn.Name(), "$") {
			continue
		}
		key := e.keyOf(fn)
		if key != "" {
			if old, dup := e.fnByKey[key]; !dup || old.Synthetic != "" {
				e.fnByKey[key] = fn
			}
		}
	}
	// known types: all named types of the module and pointers to them (deterministic order)
	var names []string
	byName := map[string]types.Type{}
	for path, sp := range e.spkgs {
		if !strings.HasPrefix(path, modulePath) {
			continue
		}
		for _, m := range sp.Members {
			if t, ok := m.(*ssa.Type); ok {
				k := typeKey(t.Type())
				names = append(names, path+"|"+k)
				byName[path+"|"+k] = t.Type()
			}
		}
	}
	sort.Strings(names)
	for _, n := range names {
		t := byName[n]
		e.known = append(e.known, t, types.NewPointer(t))
	}
	for _, t := range e.known {
		e.typeID(t)
	}
	e.maxKnown = len(e.typeIDs)
	cs, err := loadContracts(root)
	if err != nil {
		return nil, err
	}
	e.contracts = cs
	for k, fc := range cs.Funcs {
		if strings.Contains(k, "#") {
			continue // additional verification unit of the same function (e.g. another variant); callers use the primary contract
		}
		if fn, ok := e.fnByKey[k]; ok {
			cs.byFn[fn] = fc
		}
	}
	e.loadSecs = time.Since(t0).Seconds()
	return e, nil
}

func (e *Engine) keyOf(fn *ssa.Function) string {
	root := fn
	for root.Parent() != nil {
		root = root.Parent()
	}
	var pkg string
	if root.Pkg != nil {
		pkg = root.Pkg.Pkg.Path()
	} else if root.Signature.Recv() != nil {
		if n := namedOf(root.Signature.Recv().Type()); n != nil && n.Obj().Pkg() != nil {
			pkg = n.Obj().Pkg().Path()
		}
	}
	if pkg == "" {
		return ""
	}
	name := fn.Name()
	if root.Signature.Recv() != nil {
		if n := namedOf(root.Signature.Recv().Type()); n != nil {
			name = n.Obj().Name() + "." + name
		}
	}
	return pkg + "." + name
}

func (e *Engine) inModule(fn *ssa.Function) bool {
	root := fn
	for root.Parent() != nil {
		root = root.Parent()
	}
	if root.Pkg != nil {
		return strings.HasPrefix(root.Pkg.Pkg.Path(), modulePath)
	}
	if root.Signature.Recv() != nil {
		if n := namedOf(root.Signature.Recv().Type()); n != nil && n.Obj().Pkg() != nil {
			return strings.HasPrefix(n.Obj().Pkg().Path(), modulePath)
		}
	}
	return false
}

func (e *Engine) inModuleType(t types.Type) bool {
	if pt, ok := t.(*types.Pointer); ok {
		t = pt.Elem()
	}
	n, ok := t.(*types.Named)
	if !ok || n.Obj().Pkg() == nil {
		return false
	}
	return strings.HasPrefix(n.Obj().Pkg().Path(), modulePath)
}

func (e *Engine) typeID(t types.Type) int {
	e.mu.Lock()
	defer e.mu.Unlock()
	k := types.TypeString(t, nil)
	if id, ok := e.typeIDs[k]; ok {
		return id
	}
	id := len(e.typeIDs) + 1
	e.typeIDs[k] = id
	e.typeList = append(e.typeList, t)
	return id
}

func (e *Engine) knownTypes() []types.Type { return e.known }
func (e *Engine) maxKnownTypeID() int      { return e.maxKnown }

func (e *Engine) funcID(f *ssa.Function) int {
	e.mu.Lock()
	defer e.mu.Unlock()
	if id, ok := e.funcIDs[f]; ok {
		return id
	}
	id := 900000000 + len(e.funcIDs)*refK
	e.funcIDs[f] = id
	return id
}

func (e *Engine) allTypesPkgs() []*types.Package {
	var out []*types.Package
	seen := map[*types.Package]bool{}
	var walk func(p *packages.Package)
	walk = func(p *packages.Package) {
		if p.Types == nil || seen[p.Types] {
			return
		}
		seen[p.Types] = true
		out = append(out, p.Types)
		for _, i := range p.Imports {
			walk(i)
		}
	}
	for _, p := range e.pkgs {
		walk(p)
	}
	return out
}

func (e *Engine) typesPkg(path string) *types.Package {
	for _, p := range e.allTypesPkgs() {
		if p.Path() == path {
			return p
		}
	}
	return nil
}

func (e *Engine) globalVar(o *types.Var) *ssa.Global {
	if o.Pkg() == nil {
		return nil
	}
	sp := e.prog.Package(o.Pkg())
	if sp == nil {
		return nil
	}
	g, _ := sp.Members[o.Name()].(*ssa.Global)
	return g
}

func (e *Engine) funcByName(p *types.Package, name string) *ssa.Function {
	sp := e.prog.Package(p)
	if sp == nil {
		return nil
	}
	f, _ := sp.Members[name].(*ssa.Function)
	return f
}

func (e *Engine) lookupNamedType(fn *ssa.Function, name string) types.Type {
	root := fn
	for root.Parent() != nil {
		root = root.Parent()
	}
	var pkg *types.Package
	if root.Pkg != nil {
		pkg = root.Pkg.Pkg
	}
	if strings.Contains(name, ".") {
		parts := strings.SplitN(name, ".", 2)
		for _, p := range e.allTypesPkgs() {
			if p.Name() == parts[0] {
				if o, ok := p.Scope().Lookup(parts[1]).(*types.TypeName); ok {
					return o.Type()
				}
			}
		}
		return nil
	}
	if pkg != nil {
		if o, ok := pkg.Scope().Lookup(name).(*types.TypeName); ok {
			return o.Type()
		}
	}
	return nil
}

// staticTypeOf resolves the static type of a simple selector chain (x.f.g) in fn's parameter scope.
func (e *Engine) staticTypeOf(fn *ssa.Function, expr string) types.Type {
	parts := strings.Split(strings.TrimSpace(expr), ".")
	var cur types.Type
	for _, p := range fn.Params {
		if p.Name() == parts[0] {
			cur = p.Type()
		}
	}
	if cur == nil {
		return nil
	}
	for _, f := range parts[1:] {
		t := cur
		if pt, ok := t.Underlying().(*types.Pointer); ok {
			t = pt.Elem()
		}
		var pkg *types.Package
		if n, ok := t.(*types.Named); ok {
			pkg = n.Obj().Pkg()
		}
		obj, _, _ := types.LookupFieldOrMethod(t, true, pkg, f)
		v, ok := obj.(*types.Var)
		if !ok {
			return nil
		}
		cur = v.Type()
	}
	return cur
}

// ------------------------------------------------------------------ guards / conds

func (e *Engine) structByName(pkg, name string) types.Type {
	p := e.typesPkg(pkg)
	if p == nil {
		return nil
	}
	if o, ok := p.Scope().Lookup(name).(*types.TypeName); ok {
		return o.Type()
	}
	return nil
}

func (e *Engine) guardOf(structT types.Type, field int) *GuardDecl {
	n, ok := structT.(*types.Named)
	if !ok || n.Obj().Pkg() == nil {
		return nil
	}
	fname := structT.Underlying().(*types.Struct).Field(field).Name()
	for _, g := range e.contracts.Guards {
		if g.Private {
			continue
		}
		if g.Pkg == n.Obj().Pkg().Path() && g.Struct == n.Obj().Name() {
			for _, f := range g.Fields {
				if f == fname {
					return g
				}
			}
		}
	}
	return nil
}

// privateField: declared written-after-construction but not guarded.
func (e *Engine) privateField(structT types.Type, field int) bool {
	n, ok := structT.(*types.Named)
	if !ok || n.Obj().Pkg() == nil {
		return false
	}
	fname := structT.Underlying().(*types.Struct).Field(field).Name()
	for _, g := range e.contracts.Guards {
		if g.Private && g.Pkg == n.Obj().Pkg().Path() && g.Struct == n.Obj().Name() {
			for _, f := range g.Fields {
				if f == fname {
					return true
				}
			}
		}
	}
	return false
}

// contentsGuardOf: the guard of the contents (map entries / slice elements) of a field declared "name[]".
func (e *Engine) contentsGuardOf(structT types.Type, field int) *GuardDecl {
	n, ok := structT.(*types.Named)
	if !ok || n.Obj().Pkg() == nil {
		return nil
	}
	fname := structT.Underlying().(*types.Struct).Field(field).Name()
	for _, g := range e.contracts.Guards {
		if g.Private {
			continue
		}
		if g.Pkg == n.Obj().Pkg().Path() && g.Struct == n.Obj().Name() {
			for _, f := range g.Fields {
				if f == fname+"[]" || f == fname {
					return g
				}
			}
		}
	}
	return nil
}

func (e *Engine) isWaited(structT types.Type, field int) bool {
	n, ok := structT.(*types.Named)
	if !ok || n.Obj().Pkg() == nil {
		return false
	}
	fname := structT.Underlying().(*types.Struct).Field(field).Name()
	for _, c := range e.contracts.Conds {
		if c.Pkg != n.Obj().Pkg().Path() {
			continue
		}
		for _, w := range c.Waits {
			if w == n.Obj().Name()+"."+fname {
				return true
			}
		}
	}
	return false
}

// waitedSVNames: names of the heap arrays of the fields some condition variable's waiters depend on.
func (e *Engine) waitedSVNames() map[string]bool {
	out := map[string]bool{}
	for _, c := range e.contracts.Conds {
		p := e.typesPkg(c.Pkg)
		if p == nil {
			continue
		}
		for _, w := range c.Waits {
			i := strings.Index(w, ".")
			if i < 0 {
				continue
			}
			out["F_"+sanitizeID(p.Name()+"."+w[:i])+"_"+w[i+1:]] = true
		}
	}
	return out
}

// guardedSVs: state variables of every guarded field, plus the element/map heaps of guarded slices/maps.
// lockClassOf: the lock class of the mutex an SSA value denotes (by its static origin).
func (e *Engine) lockClassOf(v ssa.Value) string {
	var fa *ssa.FieldAddr
	switch x := v.(type) {
	case *ssa.FieldAddr:
		fa = x
	case *ssa.UnOp:
		if f, ok := x.X.(*ssa.FieldAddr); ok {
			fa = f
		}
	}
	if fa == nil {
		return ""
	}
	structT := fa.X.Type().Underlying().(*types.Pointer).Elem()
	n := namedOf(structT)
	if n == nil || n.Obj().Pkg() == nil {
		return ""
	}
	fname := structT.Underlying().(*types.Struct).Field(fa.Field).Name()
	for _, g := range e.contracts.Guards {
		if g.Private {
			continue
		}
		if g.Pkg == n.Obj().Pkg().Path() && g.Struct == n.Obj().Name() && g.LockField == fname {
			return g.Class
		}
	}
	for _, c := range e.contracts.Conds {
		if c.Pkg == n.Obj().Pkg().Path() && c.Name == n.Obj().Name()+"."+fname {
			return c.Class
		}
	}
	// a cond field of another struct that shares a declared cond's name suffix (muxerStream.cond -> class of its guard)
	for _, g := range e.contracts.Guards {
		if g.Private {
			continue
		}
		if g.Pkg == n.Obj().Pkg().Path() && g.Struct == n.Obj().Name() && fname == "cond" {
			return g.Class
		}
	}
	return ""
}

func (e *Engine) guardedSVs(vc *VC, class string) []string {
	set := map[string]bool{}
	for _, g := range e.contracts.Guards {
		if g.Private || (class != "" && g.Class != class) {
			continue
		}
		t := e.structByName(g.Pkg, g.Struct)
		if t == nil {
			continue
		}
		st := t.Underlying().(*types.Struct)
		for i := 0; i < st.NumFields(); i++ {
			f := st.Field(i)
			match, contentsOnly := false, false
			for _, gf := range g.Fields {
				if gf == f.Name() {
					match = true
				}
				if gf == f.Name()+"[]" {
					match, contentsOnly = true, true
				}
			}
			if !match {
				continue
			}
			if isStructLike(f.Type()) {
				m := map[string]bool{}
				vc.modStruct(f.Type(), m)
				for k := range m {
					set[k] = true
				}
				continue
			}
			sv, _ := vc.fieldSV(t, i)
			if !contentsOnly {
				set[sv] = true
			}
			switch u := f.Type().Underlying().(type) {
			case *types.Slice:
				set[vc.elemSV(u.Elem())] = true
			case *types.Map:
				d, v := vc.mapSV(u)
				set[d], set[v] = true, true
			}
		}
	}
	out := make([]string, 0, len(set))
	for k := range set {
		out = append(out, k)
	}
	sort.Strings(out)
	return out
}

// ------------------------------------------------------------------ verification of one function

var shapeEnsRe = regexp.MustCompile(`^result(\d*)\s+in\s+/(.*)/$`)

// resolveLoopShapes: a loop-carried string that is only ever extended (ret += X) has the shape
// entry (X1|X2|...)*; anything else is unknown.
func (vc *VC) resolveLoopShapes() {
	for id, entry := range vc.loopEntry {
		var bodies []*Shape
		ok := true
		for _, b := range vc.loopBacks[id] {
			x, good := stripRef(b, id)
			if !good {
				ok = false
				break
			}
			bodies = append(bodies, x)
		}
		if !ok {
			vc.loopShapes[id] = shAny()
			continue
		}
		if len(bodies) == 0 {
			vc.loopShapes[id] = entry
			continue
		}
		vc.loopShapes[id] = shCat(entry, &Shape{K: "star", A: shAlt(bodies...)})
	}
}

var callsumRe = regexp.MustCompile(`callsum\("([^"]+)"\s*,\s*(\d+)\)`)
var callsRe = regexp.MustCompile(`(?:calls|callarg|callres)\("([^"]+)"(?:\s*,\s*[^,)]+\s*,\s*(\d+))?`)
var callresRe = regexp.MustCompile(`callres\("([^"]+)"`)

// resultSlot is the pseudo parameter index under which the first result of a recorded call is kept
const resultSlot = 99

func (e *Engine) verifyFunction(fc *FuncContract) (*VC, error) {
	fnKey := fc.Key
	if i := strings.Index(fnKey, "#"); i >= 0 {
		fnKey = fnKey[:i]
	}
	fn, ok := e.fnByKey[fc.Pkg+"."+fnKey]
	if !ok {
		return nil, fmt.Errorf("contract target %s.%s not found in the current tree", fc.Pkg, fc.Key)
	}
	vc := newVC(e, fn, fc)
	vc.props = fc.Props
	// events mentioned in this contract
	vc.eventNames = map[string]bool{}
	vc.eventArgTypes = map[string]types.Type{}
	texts := append(append([]string{}, fc.Requires...), fc.Ensures...)
	for _, lc := range fc.Loops {
		texts = append(texts, lc.Invariants...)
	}
	for _, acs := range fc.AtCall {
		texts = append(texts, acs...)
	}
	texts = append(texts, fc.Reachable...)
	// predicates may mention call events too
	for _, pd := range e.contracts.Preds {
		if strings.Contains(pd.Body, "calls(") || strings.Contains(pd.Body, "callarg(") || strings.Contains(pd.Body, "callsum(") {
			for _, t := range append(append(append([]string{}, fc.Requires...), fc.Ensures...), fc.Reachable...) {
				if strings.Contains(t, pd.Name+"(") {
					texts = append(texts, pd.Body)
				}
			}
			for _, lc := range fc.Loops {
				for _, t := range lc.Invariants {
					if strings.Contains(t, pd.Name+"(") {
						texts = append(texts, pd.Body)
					}
				}
			}
		}
	}
	for _, t := range texts {
		for _, m := range callsRe.FindAllStringSubmatch(t, -1) {
			vc.eventNames[m[1]] = true
			vc.eventCounter(m[1])
		}
		for _, m := range callsumRe.FindAllStringSubmatch(t, -1) {
			vc.eventNames[m[1]] = true
			vc.eventCounter(m[1])
			vc.svDeclare(fmt.Sprintf("G_sum_%s_%s", sanitizeID(m[1]), m[2]), "Int")
		}
	}
	for _, t := range texts {
		for _, m := range callsRe.FindAllStringSubmatch(t, -1) {
			if m[2] != "" && e.fnByShort(m[1]) == nil {
				key := fmt.Sprintf("G_arg_%s_%s", sanitizeID(m[1]), m[2])
				if _, ok := vc.svSort[key]; !ok {
					vc.svDeclare(key, "(Array Int Int)")
				}
			}
		}
	}
	for name := range vc.eventNames {
		// declare argument recorders with the callee's parameter types where it can be resolved
		if target := e.fnByShort(name); target != nil {
			for i, p := range target.Params {
				key := fmt.Sprintf("G_arg_%s_%d", sanitizeID(name), i)
				vc.eventArgTypes[key] = p.Type()
				vc.eventArg(name, i)
			}
		}
	}
	for _, t := range texts {
		for _, m := range callresRe.FindAllStringSubmatch(t, -1) {
			key := fmt.Sprintf("G_arg_%s_%d", sanitizeID(m[1]), resultSlot)
			if target := e.fnByShort(m[1]); target != nil && target.Signature.Results().Len() > 0 {
				vc.eventArgTypes[key] = target.Signature.Results().At(0).Type()
			}
			vc.eventArg(m[1], resultSlot)
		}
	}
	if strings.Contains(fc.Theory, "strinj") {
		vc.needItoa()
		vc.declareOnceRaw("strinj", `(assert (forall ((a Int) (b Int) (c Int)) (! (=> (= (scat a b) (scat a c)) (= b c)) :pattern ((scat a b) (scat a c)))))
(assert (forall ((a Int) (b Int) (c Int)) (! (=> (= (scat a c) (scat b c)) (= a b)) :pattern ((scat a c) (scat b c)))))
(assert (forall ((x Int) (y Int)) (! (=> (= (itoa x) (itoa y)) (= x y)) :pattern ((itoa x) (itoa y)))))`)
		vc.assume("theory strinj: string concatenation is cancellative on both sides and decimal formatting (strconv.FormatUint/FormatInt) is injective (facts about Go strings, assumed as axioms)")
	}
	st := &State{pc: "true", vars: map[string]string{}}
	vc.svDeclare("G_alloc", "Int")
	vc.fact("true", fmt.Sprintf("(> %s 1)", vc.svInit["G_alloc"]))
	vc.svDeclare("G_held", "(Array Int Int)")
	vc.svDeclare("G_nheld", "Int")
	vc.svDeclare("G_dirty", "Bool")
	vc.fact("true", fmt.Sprintf("(not %s)", vc.svInit["G_dirty"]))
	vc.fact("true", fmt.Sprintf("(>= %s 0)", vc.svInit["G_nheld"]))
	fr := vc.newFrame(fn, 0)
	fr.top = true
	vc.topFrame = fr
	args := make([]string, len(fn.Params))
	for i, p := range fn.Params {
		args[i] = vc.fresh(vc.sortOf(p.Type()), "arg_"+p.Name())
		vc.typeFacts(st, args[i], p.Type())
		fr.env[p] = args[i]
		vc.witness[p.Name()] = args[i]
		vc.witnessSort[args[i]] = vc.sortOf(p.Type())
	}
	if fn.Signature.Recv() != nil && len(args) > 0 {
		if _, isPtr := fn.Signature.Recv().Type().Underlying().(*types.Pointer); isPtr {
			vc.fact("true", fmt.Sprintf("(> %s 0)", args[0]))
			vc.assume("method receivers are non-nil")
		}
	}
	vc.entry = st.clone()
	for i, r := range fc.Requires {
		t, err := vc.specBoolAt(fr, st, st, r, nil)
		if err != nil {
			return vc, fmt.Errorf("requires %d of %s: %v", i+1, fc.Key, err)
		}
		vc.fact("true", t)
	}
	for i, r := range fc.ObjInv {
		t, err := vc.specBoolAt(fr, st, st, r, nil)
		if err != nil {
			return vc, fmt.Errorf("invariant %d of %s: %v", i+1, fc.Key, err)
		}
		vc.fact("true", t)
	}
	// definitional axioms of the ghost functions this contract mentions
	{
		all := strings.Join(texts, " ")
		for _, inv := range fc.ObjInv {
			all += " " + inv
		}
		for _, ax := range e.contracts.Axioms {
			used := false
			for name := range e.contracts.UFuns {
				if strings.Contains(ax.Body, name+"(") && strings.Contains(all, name+"(") {
					used = true
				}
			}
			if !used {
				continue
			}
			t, err := vc.specBoolAt(fr, st, st, ax.Body, nil)
			if err != nil {
				return vc, fmt.Errorf("axiom %s: %v", ax.Name, err)
			}
			vc.fact("true", t)
		}
	}
	for _, w := range fc.Witness {
		v, err := vc.specEval(fr, st, st, w, nil)
		if err == nil {
			vc.witness[w] = vc.def(vc.sortOfVal(v), v.term, "wit")
			vc.witnessSort[vc.witness[w]] = vc.sortOfVal(v)
		}
	}
	vc.entry = st.clone()
	vc.frameSetup(fr, fc)
	// precondition satisfiable (vacuity guard)
	vc.cover(st, "requires", "the precondition is satisfiable", fn.Pos())
	exit, res := vc.execFunction(fr, st, args)
	fr.specEnv = map[string]specVal{}
	vc.bindResults(fr, fn, res)
	vc.resolveLoopShapes()
	for i, em := range fc.Emits {
		if len(res) > 0 {
			if strings.Contains(em[1], ",") {
				var want []string
				for _, w := range strings.Split(em[1], ",") {
					want = append(want, strings.TrimSpace(w))
				}
				vc.emitsSeqObligation(fmt.Sprint(vc.ordinal("emits")), res[0], em[0], want, fn.Pos())
			} else {
				vc.emitsObligation(fmt.Sprint(vc.ordinal("emits")), res[0], em[0], em[1], fn.Pos())
			}
			if i < len(fc.EmitsProps) && len(fc.EmitsProps[i]) > 0 {
				vc.obls[len(vc.obls)-1].Props = fc.EmitsProps[i]
			}
		}
	}
	for i, en := range fc.Ensures {
		if m := shapeEnsRe.FindStringSubmatch(en); m != nil {
			k := 0
			if m[1] != "" {
				fmt.Sscanf(m[1], "%d", &k)
			}
			if k < len(res) {
				vc.shapeObligation(fmt.Sprint(i+1), "every string this function can return matches /"+truncStr(m[2], 200)+"/", res[k], m[2], fn.Pos())
				if ps, ok := fc.ClausePropsEns[i]; ok {
					vc.obls[len(vc.obls)-1].Props = ps
				}
			}
			continue
		}
		t, err := vc.specBoolAt(fr, exit, vc.entry, en, nil)
		if err != nil {
			return vc, fmt.Errorf("ensures %d of %s: %v", i+1, fc.Key, err)
		}
		o := vc.oblige(exit, "ensures", fmt.Sprint(i+1), "postcondition: "+en, t, fn.Pos())
		if o != nil {
			if ps, ok := fc.ClausePropsEns[i]; ok {
				o.Props = ps
			}
		}
	}
	for i, en := range fc.ObjInv {
		t, err := vc.specBoolAt(fr, exit, vc.entry, en, nil)
		if err != nil {
			return vc, fmt.Errorf("invariant %d of %s: %v", i+1, fc.Key, err)
		}
		vc.oblige(exit, "objinv", fmt.Sprint(i+1), "object invariant re-established at exit: "+en, t, fn.Pos())
	}
	// K2 exit obligations
	if len(vc.lockTerms) > 0 && !fc.LocksChange {
		var eqs []string
		for _, t := range vc.lockTerms {
			eqs = append(eqs, fmt.Sprintf("(= (select %s %s) (select %s %s))", vc.get(exit, "G_held"), t, vc.get(vc.entry, "G_held"), t))
		}
		vc.oblige(exit, "lock-balance", "exit", "every lock taken is released on every exit path (each touched lock has its entry state at exit)",
			"(and "+strings.Join(eqs, " ")+" true)", fn.Pos())
	}
	if fc.Entry {
		vc.oblige(exit, "monitor", "exit", "every write to a waited-on field is followed by Broadcast before returning (no pending wake-up)",
			fmt.Sprintf("(not %s)", vc.get(exit, "G_dirty")), fn.Pos())
	}
	vc.cover(exit, "exit", "some exit of the function is reachable under the precondition", fn.Pos())
	for i, r := range fc.Reachable {
		t, err := vc.specBoolAt(fr, exit, vc.entry, r, nil)
		if err != nil {
			return vc, fmt.Errorf("reachable %d of %s: %v", i+1, fc.Key, err)
		}
		rs := exit.clone()
		rs.pc = vc.def("Bool", fmt.Sprintf("(and %s %s)", exit.pc, t), "pc")
		vc.cover(rs, fmt.Sprintf("reachable%d", i+1), "an exit satisfying '"+r+"' is reachable (the contract is not vacuous there)", fn.Pos())
	}
	return vc, nil
}

func (vc *VC) usesLocks() bool {
	for _, l := range vc.lines {
		if strings.Contains(l, "st_G_held") {
			return true
		}
	}
	return false
}

func (e *Engine) fnByShort(name string) *ssa.Function {
	for _, fn := range e.fnByKey {
		if shortFuncName(fn) == name {
			return fn
		}
	}
	return nil
}

// frameSetup evaluates the modifies clause at entry: which state variables may be written wholly,
// and which objects of the others.
func (vc *VC) frameSetup(fr *Frame, fc *FuncContract) {
	vc.frameWhole = map[string]bool{}
	vc.frameObjs = map[string][]string{}
	mods := append([]string{}, fc.Modifies...)
	for k := 0; k < len(mods); k++ {
		m := strings.TrimSpace(mods[k])
		if strings.HasPrefix(m, "ghost ") {
			continue
		}
		if strings.HasPrefix(m, "*") {
			inner := strings.TrimSpace(m[1:])
			v, err := vc.specEval(fr, vc.entry, vc.entry, inner, nil)
			if err != nil {
				vc.unsupportedf("modifies %s: %v", m, err)
				continue
			}
			pt, ok := v.typ.Underlying().(*types.Pointer)
			if !ok {
				vc.unsupportedf("modifies %s: not a pointer", m)
				continue
			}
			if isStructLike(pt.Elem()) {
				for _, f := range structFieldNames(pt.Elem()) {
					mods = append(mods, inner+"."+f)
				}
				continue
			}
			sv := vc.cellSV(pt.Elem())
			vc.frameObjs[sv] = append(vc.frameObjs[sv], vc.def("Int", v.term, "fr"))
			if mt, ok := pt.Elem().Underlying().(*types.Map); ok {
				d, vv := vc.mapSV(mt)
				mref := vc.def("Int", fmt.Sprintf("(select %s %s)", vc.get(vc.entry, sv), v.term), "fr")
				vc.frameObjs[d] = append(vc.frameObjs[d], mref)
				vc.frameObjs[vv] = append(vc.frameObjs[vv], mref)
			}
			continue
		}
		if strings.HasSuffix(m, "[*]") {
			v, err := vc.specEval(fr, vc.entry, vc.entry, strings.TrimSuffix(m, "[*]"), nil)
			if err != nil {
				vc.unsupportedf("modifies %s: %v", m, err)
				continue
			}
			if sl, ok := v.typ.Underlying().(*types.Slice); ok {
				sv := vc.elemSV(sl.Elem())
				vc.frameObjs[sv] = append(vc.frameObjs[sv], vc.def("Int", fmt.Sprintf("(s_arr %s)", v.term), "fr"))
			}
			if mt, ok := v.typ.Underlying().(*types.Map); ok {
				d, vv := vc.mapSV(mt)
				mref := vc.def("Int", v.term, "fr")
				vc.frameObjs[d] = append(vc.frameObjs[d], mref)
				vc.frameObjs[vv] = append(vc.frameObjs[vv], mref)
			}
			continue
		}
		i := strings.LastIndex(m, ".")
		if i < 0 {
			continue
		}
		baseS, field := m[:i], m[i+1:]
		if t := vc.eng.lookupNamedType(fr.fn, baseS); t != nil {
			for _, sv := range vc.svsOfField(t, field) {
				vc.frameWhole[sv] = true
			}
			if st, ok := t.Underlying().(*types.Struct); ok {
				for i := 0; i < st.NumFields(); i++ {
					if st.Field(i).Name() != field {
						continue
					}
					switch u := st.Field(i).Type().Underlying().(type) {
					case *types.Map:
						d, v := vc.mapSV(u)
						vc.frameWhole[d], vc.frameWhole[v] = true, true
					}
				}
			}
			continue
		}
		v, err := vc.specEval(fr, vc.entry, vc.entry, baseS, nil)
		if err != nil {
			vc.unsupportedf("modifies %s: %v", m, err)
			continue
		}
		bt := v.typ
		if pt, ok := bt.Underlying().(*types.Pointer); ok {
			bt = pt.Elem()
		}
		var pkg *types.Package
		if n, ok := bt.(*types.Named); ok {
			pkg = n.Obj().Pkg()
		}
		obj, path, _ := types.LookupFieldOrMethod(bt, true, pkg, field)
		if _, ok := obj.(*types.Var); !ok {
			vc.unsupportedf("modifies %s: no such field", m)
			continue
		}
		cur, curT := v.term, bt
		for k, idx := range path {
			if pt, ok := curT.Underlying().(*types.Pointer); ok {
				curT = pt.Elem()
			}
			loc := vc.fieldLoc(cur, curT, idx)
			ft := curT.Underlying().(*types.Struct).Field(idx).Type()
			if k == len(path)-1 {
				if loc.kind == "sub" {
					ms := map[string]bool{}
					vc.modStruct(ft, ms)
					for sv := range ms {
						vc.frameWhole[sv] = true
					}
				} else {
					vc.frameObjs[loc.sv] = append(vc.frameObjs[loc.sv], vc.def("Int", cur, "fr"))
					// a map-typed field: its contents may change too
					if mt, ok := ft.Underlying().(*types.Map); ok {
						d, vv := vc.mapSV(mt)
						mref := vc.def("Int", vc.readLoc(vc.entry, loc), "fr")
						vc.frameObjs[d] = append(vc.frameObjs[d], mref)
						vc.frameObjs[vv] = append(vc.frameObjs[vv], mref)
					}
				}
				break
			}
			if loc.kind == "sub" {
				cur = loc.subRef
			} else {
				cur = vc.readLoc(vc.entry, loc)
			}
			curT = ft
		}
	}
}

// assignCheck: a write to object obj of state variable sv is allowed by the modifies clause
// (or the object was allocated by this function).
func (vc *VC) hiddenSV(sv string) bool {
	// state variables of unexported fields of another package's types are invisible to this caller
	if vc.frameHidePkg == "" {
		return false
	}
	p := vc.eng.typesPkg(vc.frameHidePkg)
	if p == nil {
		return false
	}
	return strings.HasPrefix(sv, "F_"+sanitizeID(p.Name()+"."))
}

func (vc *VC) assignCheck(fr *Frame, st *State, sv, obj string, pos token.Pos) {
	if vc.hiddenSV(sv) {
		return
	}
	if vc.inSpec > 0 || vc.fc == nil || vc.fc.ModifiesAll || vc.fc.NoFrame || vc.frameWhole == nil {
		return
	}
	if vc.frameWhole[sv] {
		return
	}
	alts := []string{fmt.Sprintf("(>= %s %s)", obj, vc.allocBound(vc.entry))}
	for _, o := range vc.frameObjs[sv] {
		alts = append(alts, fmt.Sprintf("(= %s %s)", obj, o))
	}
	vc.oblige(st, "frame", fmt.Sprintf("%s%s.%d", fnTagDot(fr), sv, vc.ordinal("frame/"+fnTagDot(fr)+sv)),
		"write to "+sv+" targets an object named in the modifies clause (or allocated by this function)", "(or "+strings.Join(alts, " ")+")", pos)
}

func (vc *VC) assignCheckWhole(fr *Frame, st *State, sv string, pos token.Pos) {
	if vc.hiddenSV(sv) {
		return
	}
	if vc.inSpec > 0 || vc.fc == nil || vc.fc.ModifiesAll || vc.fc.NoFrame || vc.frameWhole == nil {
		return
	}
	if vc.frameWhole[sv] {
		return
	}
	vc.oblige(st, "frame", fmt.Sprintf("%s%s.whole.%d", fnTagDot(fr), sv, vc.ordinal("frame/"+fnTagDot(fr)+sv)),
		"callee may modify "+sv+" of any object; the caller's modifies clause must allow that", "false", pos)
}

// extByShort finds a dependency function by its short name (for assumed contracts).
func (e *Engine) extByShort(name string) *ssa.Function {
	e.mu.Lock()
	if e.extCache == nil {
		e.extCache = map[string]*ssa.Function{}
		for fn := range ssautil.AllFunctions(e.prog) {
			if e.inModule(fn) {
				continue
			}
			e.extCache[shortFuncName(fn)] = fn
		}
	}
	e.mu.Unlock()
	return e.extCache[name]
}
