package main

import (
	"fmt"
	"go/token"
	"go/types"
	"sort"
	"strings"

	"golang.org/x/tools/go/ssa"
)

const maxInlineDepth = 6

func (vc *VC) setResults(fr *Frame, v ssa.Value, res []string) {
	if v == nil {
		return
	}
	if _, ok := v.Type().(*types.Tuple); ok {
		fr.tuples[v] = res
		return
	}
	if len(res) == 1 {
		fr.env[v] = res[0]
	}
}

func (vc *VC) execCall(fr *Frame, st *State, instr ssa.Instruction, c *ssa.CallCommon, v ssa.Value) {
	pos := instr.Pos()
	// builtins
	if b, ok := c.Value.(*ssa.Builtin); ok {
		vc.execBuiltin(fr, st, b, c, v, pos)
		return
	}
	args := make([]string, len(c.Args))
	for i, a := range c.Args {
		args[i] = vc.value(fr, st, a)
	}
	if c.IsInvoke() {
		recv := vc.value(fr, st, c.Value)
		vc.safety(fr, st, "nil", "interface is non-nil at method call ."+c.Method.Name(),
			fmt.Sprintf("(not (= (if_type %s) 0))", recv), pos)
		vc.execInvoke(fr, st, c, recv, args, v, pos)
		return
	}
	if callee := c.StaticCallee(); callee != nil {
		var closure *ssa.MakeClosure
		if mc, ok := c.Value.(*ssa.MakeClosure); ok {
			closure = mc
		}
		res := vc.callStatic(fr, st, callee, closure, args, c.Args, pos)
		vc.setResults(fr, v, res)
		vc.assumeAfter(fr, st, callee, args, res, pos)
		return
	}
	// dynamic function value
	fv := vc.value(fr, st, c.Value)
	if mc, ok := fr.closures[c.Value]; ok {
		res := vc.callStatic(fr, st, mc.Fn.(*ssa.Function), mc, args, c.Args, pos)
		vc.setResults(fr, v, res)
		return
	}
	// call through a func-typed struct field that has an abstract contract
	if u, ok := c.Value.(*ssa.UnOp); ok && u.Op == token.MUL {
		if structT, field, baseVal, ok := vc.fieldOfAddr(u.X); ok {
			if n := namedOf(structT); n != nil && n.Obj().Pkg() != nil {
				key := n.Obj().Pkg().Path() + "." + n.Obj().Name() + "." + structT.Underlying().(*types.Struct).Field(field).Name()
				if ac, ok := vc.eng.contracts.Funcs[key]; ok && ac.Like != "" {
					if like, ok := vc.eng.fnByKey[ac.Pkg+"."+ac.Like]; ok {
						vc.safety(fr, st, "nilfunc", "function value is non-nil at call", fmt.Sprintf("(not (= %s 0))", fv), pos)
						vc.event(fr, st, n.Obj().Name()+"."+structT.Underlying().(*types.Struct).Field(field).Name(), args)
						a2 := append([]string{vc.value(fr, st, baseVal)}, args...)
						res := vc.contractCall(fr, st, like, ac, a2, pos)
						vc.setResults(fr, v, res)
						vc.assume("func-typed field " + key + " is called through its abstract contract (like " + ac.Like + "); the functions stored in it carry the same postconditions")
						return
					}
				}
			}
		}
	}
	vc.safety(fr, st, "nilfunc", "function value is non-nil at call", fmt.Sprintf("(not (= %s 0))", fv), pos)
	vc.event(fr, st, "dyncall", args, sigTypes(c.Signature(), false)...)
	res := vc.externalCall(fr, st, "dynamic call of "+c.Value.Name(), c.Signature(), args, c.Args)
	vc.setResults(fr, v, res)
}

func (vc *VC) callStatic(fr *Frame, st *State, callee *ssa.Function, closure *ssa.MakeClosure, args []string, argVals []ssa.Value, pos token.Pos) []string {
	vc.atCall(fr, st, callee, args, pos)
	idx := ""
	if callee.Synthetic == "" {
		// (synthetic wrappers, e.g. the pointer-receiver wrapper of a value method, forward to the real
		// function, which records the event)
		name := shortFuncName(callee)
		if key := fmt.Sprintf("G_arg_%s_%d", sanitizeID(name), resultSlot); vc.eventNames[name] && vc.svSort[key] != "" {
			idx = vc.get(st, vc.eventCounter(name))
		}
		vc.event(fr, st, name, args, sigTypes(callee.Signature, true)...)
	}
	res := vc.callStaticInner(fr, st, callee, closure, args, argVals, pos)
	if callee.Synthetic == "" && len(res) > 0 && vc.eventNames[shortFuncName(callee)] {
		// callsum("f", 99): sum of the (integer or boolean: 1/0) first results of the recorded calls
		if sk := fmt.Sprintf("G_sum_%s_%d", sanitizeID(shortFuncName(callee)), resultSlot); vc.svSort[sk] == "Int" {
			switch vc.sortOf(callee.Signature.Results().At(0).Type()) {
			case "Int":
				vc.set(st, sk, fmt.Sprintf("(+ %s %s)", vc.get(st, sk), res[0]))
			case "Bool":
				vc.set(st, sk, fmt.Sprintf("(+ %s (ite %s 1 0))", vc.get(st, sk), res[0]))
			}
		}
	}
	if idx != "" && len(res) > 0 {
		// callres: the first result of this call is recorded under the call's index
		key := fmt.Sprintf("G_arg_%s_%d", sanitizeID(shortFuncName(callee)), resultSlot)
		r := res[0]
		if vc.svSort[key] == "(Array Int Int)" {
			switch vc.sortOf(callee.Signature.Results().At(0).Type()) {
			case "Slice":
				r = fmt.Sprintf("(s_arr %s)", r)
			case "Iface":
				r = fmt.Sprintf("(if_val %s)", r)
			case "Bool":
				r = fmt.Sprintf("(ite %s 1 0)", r)
			case "Real":
				return res
			}
		}
		vc.set(st, key, fmt.Sprintf("(store %s %s %s)", vc.get(st, key), idx, r))
	}
	return res
}

func (vc *VC) callStaticInner(fr *Frame, st *State, callee *ssa.Function, closure *ssa.MakeClosure, args []string, argVals []ssa.Value, pos token.Pos) []string {
	full := callee.String()
	// 1. built-in models of library functions
	if res, ok := vc.modelCall(fr, st, callee, args, argVals, pos); ok {
		return res
	}
	// 2. contracted callee (never inlined)
	if cc := vc.eng.contracts.lookupFn(callee); cc != nil && closure == nil && !(fr.top && callee == vc.root && false) {
		vc.callArgVals = argVals
		defer func() { vc.callArgVals = nil }()
		return vc.contractCall(fr, st, callee, cc, args, pos)
	}
	// 2b. assumed contract on a dependency
	if cc, ok := vc.eng.contracts.External[shortFuncName(callee)]; ok && vc.inSpec == 0 {
		vc.assume("T3 assumed contract on dependency " + shortFuncName(callee))
		return vc.contractCall(fr, st, callee, cc, args, pos)
	}
	// 3. module function with a body: inline
	if vc.eng.inModule(callee) && len(callee.Blocks) > 0 {
		if fr.depth >= maxInlineDepth || vc.onStack(callee) {
			vc.unsupportedf("inlining limit reached at call to %s from %s", full, fr.fn.Name())
			return vc.externalCall(fr, st, full, callee.Signature, args, argVals)
		}
		nf := vc.newFrame(callee, fr.depth+1)
		nf.paramProv = map[string]string{}
		for i, prm := range callee.Params {
			if i < len(argVals) {
				nf.paramProv[prm.Name()] = vc.prov(fr, argVals[i])
			}
		}
		if closure != nil {
			for i, fvv := range callee.FreeVars {
				b := closure.Bindings[i]
				nf.free[fvv] = vc.value(fr, st, b)
				if loc, ok := fr.locs[b]; ok {
					nf.freeLoc[fvv] = loc
				} else if bf, ok := b.(*ssa.FreeVar); ok {
					if loc, ok := fr.freeLoc[bf]; ok {
						nf.freeLoc[fvv] = loc
					}
				}
			}
		}
		vc.inlineStack = append(vc.inlineStack, callee)
		out, res := vc.execFunction(nf, st, args)
		vc.inlineStack = vc.inlineStack[:len(vc.inlineStack)-1]
		st.pc = out.pc
		st.vars = out.vars
		return res
	}
	// 4. external
	return vc.externalCall(fr, st, full, callee.Signature, args, argVals)
}

func (vc *VC) onStack(f *ssa.Function) bool {
	if f == vc.root {
		return true
	}
	for _, g := range vc.inlineStack {
		if g == f {
			return true
		}
	}
	return false
}

// externalCall: results arbitrary (within their types); structs reachable through pointer
// arguments are havocked one level deep; nothing else changes (listed assumption).
func (vc *VC) externalCall(fr *Frame, st *State, what string, sig *types.Signature, args []string, argVals []ssa.Value) []string {
	vc.assume("external/unmodelled call " + what + ": results arbitrary, structs passed by pointer are havocked (one level), no other state changes")
	for i, a := range argVals {
		if i >= len(args) {
			break
		}
		if pt, ok := a.Type().Underlying().(*types.Pointer); ok && isStructLike(pt.Elem()) && vc.eng.inModuleType(pt.Elem()) == false {
			vc.havocStruct(st, args[i], pt.Elem())
		} else if ok && !isStructLike(pt.Elem()) {
			cell := vc.cellSV(pt.Elem())
			h := vc.fresh(vc.sortOf(pt.Elem()), "hv")
			vc.set(st, cell, fmt.Sprintf("(store %s %s %s)", vc.get(st, cell), args[i], h))
		}
	}
	n := sig.Results().Len()
	res := make([]string, n)
	for i := 0; i < n; i++ {
		t := sig.Results().At(i).Type()
		res[i] = vc.fresh(vc.sortOf(t), "ext")
		vc.typeFacts(st, res[i], t)
		if isStringType(t) && len(argVals) > 0 {
			// an arbitrary string, remembered as a value of the first argument (value-flow clauses)
			vc.setShape(res[i], shHole("any", vc.prov(fr, argVals[0])))
		}
	}
	return res
}

func (vc *VC) havocStruct(st *State, ref string, t types.Type) {
	s := t.Underlying().(*types.Struct)
	for i := 0; i < s.NumFields(); i++ {
		ft := s.Field(i).Type()
		if isStructLike(ft) {
			vc.havocStruct(st, fmt.Sprintf("(+ %s %d)", ref, subOffset(t, i)), ft)
			continue
		}
		sv, _ := vc.fieldSV(t, i)
		h := vc.fresh(vc.sortOf(ft), "hv")
		vc.typeFacts(st, h, ft)
		vc.set(st, sv, fmt.Sprintf("(store %s %s %s)", vc.get(st, sv), ref, h))
	}
}

// execInvoke dispatches an interface method call over the module's implementers.
func (vc *VC) execInvoke(fr *Frame, st *State, c *ssa.CallCommon, recv string, args []string, v ssa.Value, pos token.Pos) {
	it, _ := c.Value.Type().Underlying().(*types.Interface)
	var impls []types.Type
	if it != nil && vc.eng.inModuleType(c.Value.Type()) {
		for _, t := range vc.eng.knownTypes() {
			if types.Implements(t, it) {
				impls = append(impls, t)
			}
		}
	}
	if len(impls) == 0 {
		evName := "invoke." + c.Method.Name()
		vc.atCallNamed(fr, st, evName, append([]types.Type{tInt}, sigTypes(c.Signature(), false)...), append([]string{fmt.Sprintf("(if_val %s)", recv)}, args...), c.Pos())
		idx := ""
		resKey := fmt.Sprintf("G_arg_%s_%d", sanitizeID(evName), resultSlot)
		if vc.eventNames[evName] && vc.svSort[resKey] != "" {
			idx = vc.get(st, vc.eventCounter(evName))
		}
		vc.event(fr, st, evName, append([]string{fmt.Sprintf("(if_val %s)", recv)}, args...), append([]types.Type{tInt}, sigTypes(c.Signature(), false)...)...)
		res, ok := vc.modelInvoke(fr, st, c, recv, args, pos)
		if !ok {
			res = vc.externalCall(fr, st, "interface method "+typeKey(c.Value.Type())+"."+c.Method.Name(), c.Signature(), args, c.Args)
		}
		if idx != "" && len(res) > 0 && vc.svSort[resKey] == "(Array Int Int)" {
			// callres("invoke.M", k): first result of the k-th such call (a boolean is recorded as 1/0)
			r := res[0]
			rec := true
			switch vc.sortOf(c.Signature().Results().At(0).Type()) {
			case "Slice":
				r = fmt.Sprintf("(s_arr %s)", r)
			case "Iface":
				r = fmt.Sprintf("(if_val %s)", r)
			case "Bool":
				r = fmt.Sprintf("(ite %s 1 0)", r)
			case "Real":
				rec = false
			}
			if rec {
				vc.set(st, resKey, fmt.Sprintf("(store %s %s %s)", vc.get(st, resKey), idx, r))
			}
		}
		vc.setResults(fr, v, res)
		return
	}
	// closed-world dispatch over module implementers
	var outs []*State
	var ress [][]string
	var conds []string
	for _, t := range impls {
		m := vc.eng.prog.LookupMethod(t, c.Method.Pkg(), c.Method.Name())
		if m == nil {
			continue
		}
		cond := fmt.Sprintf("(= (if_type %s) %d)", recv, vc.typeID(t))
		conds = append(conds, cond)
		s2 := st.clone()
		s2.pc = vc.def("Bool", fmt.Sprintf("(and %s %s)", st.pc, cond), "pc")
		var r0 string
		recvT := m.Signature.Recv().Type()
		if _, isPtr := recvT.Underlying().(*types.Pointer); isPtr || isStructLike(recvT) {
			r0 = fmt.Sprintf("(if_val %s)", recv)
		} else {
			r0 = vc.ifaceUnbox(s2, recv, recvT)
		}
		// wrapper methods ($bound / pointer-receiver wrappers for value methods)
		target := m
		a2 := append([]string{r0}, args...)
		res := vc.callStatic(fr, s2, target, nil, a2, nil, pos)
		outs = append(outs, s2)
		ress = append(ress, res)
	}
	vc.assume("closed world: interface values of module-defined interface types (" + typeKey(c.Value.Type()) + ") hold one of the module's implementing types")
	vc.fact(st.pc, "(or "+strings.Join(conds, " ")+")")
	m := vc.merge(outs)
	n := c.Signature().Results().Len()
	res := make([]string, n)
	for k := 0; k < n; k++ {
		pcs := make([]string, len(outs))
		vals := make([]string, len(outs))
		for i := range outs {
			pcs[i] = outs[i].pc
			vals[i] = ress[i][k]
		}
		res[k] = vc.def(vc.sortOf(c.Signature().Results().At(k).Type()), iteChain(pcs, vals), "inv")
	}
	st.pc = vc.def("Bool", st.pc, "pc") // keep caller pc (dispatch is total under the fact above)
	st.vars = m.vars
	vc.setResults(fr, v, res)
}

func (vc *VC) execDeferred(fr *Frame, st *State, d *deferRec) {
	c := d.instr.Common()
	pos := d.instr.Pos()
	if b, ok := c.Value.(*ssa.Builtin); ok {
		_ = b
		return
	}
	if c.IsInvoke() {
		recv := d.args[0]
		vc.execInvoke(fr, st, c, recv, d.args[1:], nil, pos)
		return
	}
	if callee := c.StaticCallee(); callee != nil {
		var closure *ssa.MakeClosure
		if mc, ok := c.Value.(*ssa.MakeClosure); ok {
			closure = mc
		}
		vc.callStatic(fr, st, callee, closure, d.args, c.Args, pos)
		return
	}
	vc.externalCall(fr, st, "deferred dynamic call", c.Signature(), d.args[1:], c.Args)
}

// ------------------------------------------------------------------ builtins

func (vc *VC) execBuiltin(fr *Frame, st *State, b *ssa.Builtin, c *ssa.CallCommon, v ssa.Value, pos token.Pos) {
	arg := func(i int) string { return vc.value(fr, st, c.Args[i]) }
	switch b.Name() {
	case "len":
		a := arg(0)
		switch t := c.Args[0].Type().Underlying().(type) {
		case *types.Slice:
			fr.env[v] = vc.def("Int", fmt.Sprintf("(s_len %s)", a), "len")
		case *types.Basic:
			fr.env[v] = vc.def("Int", fmt.Sprintf("(slen %s)", a), "len")
		case *types.Map:
			n := vc.def("Int", vc.mapCard(st, t, a), "maplen")
			vc.fact(st.pc, fmt.Sprintf("(>= %s 0)", n))
			fr.env[v] = n
		case *types.Array:
			fr.env[v] = fmt.Sprint(t.Len())
		case *types.Pointer:
			fr.env[v] = fmt.Sprint(t.Elem().Underlying().(*types.Array).Len())
		default:
			vc.havocValue(fr, st, v, "len")
		}
	case "cap":
		a := arg(0)
		if _, ok := c.Args[0].Type().Underlying().(*types.Slice); ok {
			fr.env[v] = vc.def("Int", fmt.Sprintf("(s_cap %s)", a), "cap")
		} else if _, ok := c.Args[0].Type().Underlying().(*types.Chan); ok {
			fr.env[v] = vc.def("Int", fmt.Sprintf("(chancap %s)", a), "cap")
			vc.fact(st.pc, fmt.Sprintf("(>= %s 0)", fr.env[v]))
		} else {
			vc.havocValue(fr, st, v, "cap")
		}
	case "append":
		vc.execAppend(fr, st, c, v)
	case "copy":
		vc.execCopy(fr, st, c, v)
	case "delete":
		m := arg(0)
		k := arg(1)
		mt := c.Args[0].Type().Underlying().(*types.Map)
		dom, _ := vc.mapSV(mt)
		cur := vc.get(st, dom)
		vc.set(st, dom, fmt.Sprintf("(ite (= %s 0) %s (store %s %s (store (select %s %s) %s false)))", m, cur, cur, m, cur, m, k))
		vc.noteMapWrite(fr, st, c.Args[0], pos)
		vc.assignCheck(fr, st, dom, m, pos)
	case "close":
		vc.event(fr, st, "close", []string{arg(0)})
	case "panic":
		vc.oblige(st, "panic", fmt.Sprintf("%s%d", fnTagDot(fr), vc.ordinal("panic")), "explicit panic is unreachable", "false", pos)
	case "min", "max":
		a, bb := arg(0), arg(1)
		f := "imin"
		if b.Name() == "max" {
			f = "imax"
		}
		fr.env[v] = vc.def("Int", fmt.Sprintf("(%s %s %s)", f, a, bb), b.Name())
	case "ssa:wrapnilchk":
		fr.env[v] = arg(0)
	case "print", "println", "recover":
		if v != nil {
			vc.havocValue(fr, st, v, b.Name())
		}
	default:
		if v != nil {
			vc.havocValue(fr, st, v, "builtin "+b.Name())
		}
		vc.unsupportedf("builtin %s", b.Name())
	}
}

func (vc *VC) execAppend(fr *Frame, st *State, c *ssa.CallCommon, v ssa.Value) {
	s := vc.value(fr, st, c.Args[0])
	t := vc.value(fr, st, c.Args[1])
	st0 := c.Args[0].Type().Underlying().(*types.Slice)
	elem := st0.Elem()
	ev := vc.elemSV(elem)
	vc.assume("append is modelled as always returning a fresh backing array (prefix copied); code relying on in-place aliasing after append is outside the model")
	// appending string to []byte
	if isStringType(c.Args[1].Type()) {
		a := vc.alloc(st, "arr")
		n := vc.def("Int", fmt.Sprintf("(+ (s_len %s) (slen %s))", s, t), "alen")
		fr.env[v] = vc.def("Slice", fmt.Sprintf("(mk_slice %s 0 %s %s)", a, n, n), "app")
		return
	}
	// statically single-element append: t is a Slice of a fresh 1-array
	if one, ok := vc.singleElem(fr, st, c.Args[1]); ok {
		a := vc.alloc(st, "arr")
		cur := vc.get(st, ev)
		vc.set(st, ev, fmt.Sprintf("(store %s %s (store (select %s (s_arr %s)) (ix (s_off %s) (s_len %s)) %s))", cur, a, cur, s, s, s, one))
		n := vc.def("Int", fmt.Sprintf("(+ (s_len %s) 1)", s), "alen")
		capv := vc.fresh("Int", "acap")
		vc.fact(st.pc, fmt.Sprintf("(>= %s %s)", capv, n))
		fr.env[v] = vc.def("Slice", fmt.Sprintf("(mk_slice %s (s_off %s) %s %s)", a, s, n, capv), "app")
		return
	}
	// general: quantified copy
	a := vc.alloc(st, "arr")
	cur := vc.get(st, ev)
	na := vc.fresh(fmt.Sprintf("(Array Int %s)", vc.sortOf(elem)), "apparr")
	vc.fact(st.pc, fmt.Sprintf("(forall ((i Int)) (=> (and (<= 0 i) (< i (s_len %s))) (= (select %s i) (select (select %s (s_arr %s)) (+ (s_off %s) i)))))", s, na, cur, s, s))
	vc.fact(st.pc, fmt.Sprintf("(forall ((i Int)) (=> (and (<= 0 i) (< i (s_len %s))) (= (select %s (+ (s_len %s) i)) (select (select %s (s_arr %s)) (+ (s_off %s) i)))))", t, na, s, cur, t, t))
	vc.set(st, ev, fmt.Sprintf("(store %s %s %s)", cur, a, na))
	n := vc.def("Int", fmt.Sprintf("(+ (s_len %s) (s_len %s))", s, t), "alen")
	capv := vc.fresh("Int", "acap")
	vc.fact(st.pc, fmt.Sprintf("(>= %s %s)", capv, n))
	fr.env[v] = vc.def("Slice", fmt.Sprintf("(mk_slice %s 0 %s %s)", a, n, capv), "app")
}

// singleElem recognises the SSA idiom for append(s, x): new [1]T; store x at [0]; slice.
func (vc *VC) singleElem(fr *Frame, st *State, v ssa.Value) (string, bool) {
	sl, ok := v.(*ssa.Slice)
	if !ok {
		return "", false
	}
	al, ok := sl.X.(*ssa.Alloc)
	if !ok {
		return "", false
	}
	arr, ok := al.Type().(*types.Pointer).Elem().Underlying().(*types.Array)
	if !ok || arr.Len() != 1 {
		return "", false
	}
	ev := vc.elemSV(arr.Elem())
	return fmt.Sprintf("(select (select %s %s) 0)", vc.get(st, ev), vc.value(fr, st, al)), true
}

func (vc *VC) execCopy(fr *Frame, st *State, c *ssa.CallCommon, v ssa.Value) {
	d := vc.value(fr, st, c.Args[0])
	s := vc.value(fr, st, c.Args[1])
	elem := c.Args[0].Type().Underlying().(*types.Slice).Elem()
	ev := vc.elemSV(elem)
	var slen string
	if isStringType(c.Args[1].Type()) {
		slen = fmt.Sprintf("(slen %s)", s)
	} else {
		slen = fmt.Sprintf("(s_len %s)", s)
	}
	n := vc.def("Int", fmt.Sprintf("(imin (s_len %s) %s)", d, slen), "copied")
	cur := vc.get(st, ev)
	na := vc.fresh(fmt.Sprintf("(Array Int %s)", vc.sortOf(elem)), "cparr")
	if isStringType(c.Args[1].Type()) {
		vc.fact(st.pc, fmt.Sprintf("(forall ((i Int)) (= (select %s i) (ite (and (<= (s_off %s) i) (< i (+ (s_off %s) %s))) (sbyte %s (- i (s_off %s))) (select (select %s (s_arr %s)) i))))",
			na, d, d, n, s, d, cur, d))
	} else {
		vc.fact(st.pc, fmt.Sprintf("(forall ((i Int)) (= (select %s i) (ite (and (<= (s_off %s) i) (< i (+ (s_off %s) %s))) (select (select %s (s_arr %s)) (+ (s_off %s) (- i (s_off %s)))) (select (select %s (s_arr %s)) i))))",
			na, d, d, n, cur, s, s, d, cur, d))
	}
	vc.set(st, ev, fmt.Sprintf("(ite (= (s_arr %s) 0) %s (store %s (s_arr %s) %s))", d, cur, cur, d, na))
	if v != nil {
		fr.env[v] = n
	}
}

// ------------------------------------------------------------------ contract calls

func (vc *VC) contractCall(fr *Frame, st *State, callee *ssa.Function, cc *FuncContract, args []string, pos token.Pos) []string {
	cf := vc.newFrame(callee, fr.depth+1)
	for i, p := range callee.Params {
		cf.env[p] = args[i]
	}
	pre := st.clone()
	n := vc.ordinal("call/" + cc.Key)
	samePkg := vc.fc != nil && vc.fc.Pkg == cc.Pkg
	if samePkg {
		for i, r := range cc.ObjInv {
			t, err := vc.specBoolAt(cf, pre, pre, r, nil)
			if err != nil {
				continue
			}
			vc.oblige(st, "precondition", fmt.Sprintf("%s%s.%d.inv%d", fnTagDot(fr), cc.Key, n, i+1),
				"caller (same package) establishes the callee's object invariant: "+r, t, pos)
		}
	} else if len(cc.ObjInv) > 0 {
		vc.assume("object invariants of " + cc.Pkg + " types are hidden from other packages: they hold whenever control is outside that package (fields unexported; every method under contract re-establishes them)")
	}
	if vc.fc != nil && vc.fc.NoCallPre {
		vc.assume("OPEN: callee preconditions are not checked inside " + vc.fc.Key + " (declared nocallpre); its calls' panic-freedom is not established")
	}
	for i, r := range cc.Requires {
		if vc.fc != nil && vc.fc.NoCallPre {
			break
		}
		t, err := vc.specBoolAt(cf, pre, pre, r, nil)
		if err != nil {
			vc.unsupportedf("requires %d of %s at call from %s: %v", i+1, cc.Key, fr.fn.Name(), err)
			continue
		}
		vc.oblige(st, "precondition", fmt.Sprintf("%s%s.%d.req%d", fnTagDot(fr), cc.Key, n, i+1),
			"caller establishes: "+r, t, pos)
	}
	// frame: havoc what the callee may modify (and check it against the caller's own frame)
	vc.frameFr, vc.framePos = fr, pos
	if !samePkg {
		vc.frameHidePkg = cc.Pkg
	}
	vc.havocModifies(cf, st, cc, pre)
	vc.frameFr = nil
	vc.frameHidePkg = ""
	vc.havocCalleeEvents(st, cc)
	// a callee that may write a field some waiter depends on leaves a wake-up pending
	{
		waited := vc.eng.waitedSVNames()
		pending := cc.ModifiesAll
		for _, m := range cc.Modifies {
			for _, k := range vc.modTargetSVs(callee, m) {
				if waited[k] {
					pending = true
				}
			}
		}
		if pending && vc.inSpec == 0 {
			vc.svDeclare("G_dirty", "Bool")
			if ensuresClean(cc) {
				st.vars["G_dirty"] = vc.fresh("Bool", "havoc_dirty") // constrained by the callee's postcondition
			} else {
				st.vars["G_dirty"] = "true"
			}
		}
	}
	nres := callee.Signature.Results().Len()
	res := make([]string, nres)
	for i := 0; i < nres; i++ {
		t := callee.Signature.Results().At(i).Type()
		res[i] = vc.fresh(vc.sortOf(t), "res_"+callee.Name())
		vc.typeFacts(st, res[i], t)
	}
	cf.specEnv = map[string]specVal{}
	vc.bindResults(cf, callee, res)
	for i, e := range cc.Ensures {
		if m := shapeEnsRe.FindStringSubmatch(e); m != nil {
			// string-shape postcondition: the result is some string of that language
			k := 0
			if m[1] != "" {
				fmt.Sscanf(m[1], "%d", &k)
			}
			if k < len(res) {
				sh := &Shape{K: "re", S: m[2]}
				// the callee's own "emits" clauses (proved on its body) carry over, with its
				// parameter names rewritten to where the caller's arguments come from
				for _, em := range cc.Emits {
					sh.Emits = append(sh.Emits, [2]string{em[0], rewriteProv(em[1], callee, vc.callArgVals)})
				}
				vc.setShape(res[k], sh)
			}
			continue
		}
		if cc.LocalEns[i] {
			continue
		}
		t, err := vc.specBoolAt(cf, st, pre, e, nil)
		if err != nil {
			vc.unsupportedf("ensures %d of %s at call from %s: %v", i+1, cc.Key, fr.fn.Name(), err)
			continue
		}
		vc.fact(st.pc, t)
	}
	if samePkg {
		for _, e := range cc.ObjInv {
			if t, err := vc.specBoolAt(cf, st, pre, e, nil); err == nil {
				vc.fact(st.pc, t)
			}
		}
	}
	if fr.top && vc.inSpec == 0 {
		vc.cover(st, fmt.Sprintf("after.%s.%d", cc.Key, n), "execution can continue after the call to "+cc.Key+" (its assumed postcondition is consistent here)", pos)
	}
	return res
}

func (vc *VC) bindResults(cf *Frame, callee *ssa.Function, res []string) {
	sig := callee.Signature
	for i := 0; i < sig.Results().Len(); i++ {
		r := sig.Results().At(i)
		sv := specVal{term: res[i], typ: r.Type()}
		cf.specEnv[fmt.Sprintf("result%d", i)] = sv
		if i == 0 {
			cf.specEnv["result"] = sv
		}
		if r.Name() != "" && r.Name() != "_" {
			cf.specEnv[r.Name()] = sv
		}
	}
}

// havocModifies applies a contract's frame at a call site.
func (vc *VC) havocModifies(cf *Frame, st *State, cc *FuncContract, pre *State) {
	if cc.ModifiesAll {
		if vc.frameFr != nil && vc.fc != nil && !vc.fc.ModifiesAll && !vc.fc.NoFrame {
			vc.oblige(st, "frame", fmt.Sprintf("%scallee-modifies-all.%d", fnTagDot(vc.frameFr), vc.ordinal("frame/all")),
				"callee "+cc.Key+" may modify anything; the caller's modifies clause must be * too", "false", vc.framePos)
		}
		keys := make([]string, 0, len(vc.svSort))
		for k := range vc.svSort {
			keys = append(keys, k)
		}
		sort.Strings(keys)
		vc.havocSV(st, "G_alloc")
		for _, k := range keys {
			if k == "G_alloc" {
				continue
			}
			if strings.HasPrefix(k, "G_defer_") || strings.HasPrefix(k, "L|") {
				continue
			}
			if (k == "G_held" || k == "G_nheld") && !cc.LocksChange {
				continue
			}
			if strings.HasPrefix(k, "G_calls_") || strings.HasPrefix(k, "G_arg_") {
				continue
			}
			vc.havocSV(st, k)
		}
		return
	}
	// allocation clock may advance in any callee (first: havocked values are bounded by the new clock)
	vc.havocSV(st, "G_alloc")
	for _, m := range cc.Modifies {
		vc.havocTarget(cf, st, pre, m)
	}
}

func (vc *VC) havocSV(st *State, k string) {
	if _, ok := vc.svSort[k]; !ok {
		return
	}
	if k == "G_alloc" {
		old := vc.get(st, k)
		nv := vc.fresh("Int", "havoc_alloc")
		vc.fact(st.pc, fmt.Sprintf("(>= %s %s)", nv, old))
		st.vars[k] = nv
		return
	}
	st.vars[k] = vc.fresh(vc.svSort[k], "havoc_"+k)
	vc.refAxiom(st.pc, k, st.vars[k], vc.allocBound(st))
}

// ------------------------------------------------------------------ mod sets

// modSetBlocks: state variables possibly written by the given blocks (transitively through calls).
func (vc *VC) modSetBlocks(fn *ssa.Function, blocks map[*ssa.BasicBlock]bool) map[string]bool {
	out := map[string]bool{}
	for b := range blocks {
		for _, in := range b.Instrs {
			vc.modInstr(fn, in, out, 0)
		}
	}
	return out
}

func (vc *VC) modSetFn(fn *ssa.Function, depth int) map[string]bool {
	if m, ok := vc.modCache[fn]; ok {
		return m
	}
	out := map[string]bool{}
	vc.modCache[fn] = out
	for _, b := range fn.Blocks {
		for _, in := range b.Instrs {
			vc.modInstr(fn, in, out, depth)
		}
	}
	return out
}

func (vc *VC) modInstr(fn *ssa.Function, in ssa.Instruction, out map[string]bool, depth int) {
	addAll := func() {
		out["*"] = true
		for k := range vc.svSort {
			out[k] = true
		}
	}
	switch x := in.(type) {
	case *ssa.Store:
		vc.modAddr(x.Addr, out)
	case *ssa.MapUpdate:
		mt := x.Map.Type().Underlying().(*types.Map)
		d, v := vc.mapSV(mt)
		out[d], out[v] = true, true
	case *ssa.Alloc, *ssa.MakeSlice, *ssa.MakeMap, *ssa.MakeClosure, *ssa.MakeInterface:
		out["G_alloc"] = true
		if a, ok := x.(*ssa.Alloc); ok {
			elem := a.Type().(*types.Pointer).Elem()
			if isStructLike(elem) {
				if a.Heap {
					vc.modStruct(elem, out)
				} else {
					vc.modStructV(elem, out)
				}
			} else if arr, ok := elem.Underlying().(*types.Array); ok {
				out[vc.elemSV(arr.Elem())] = true
			} else {
				out[vc.cellSV(elem)] = true
			}
		}
		if ms, ok := x.(*ssa.MakeSlice); ok {
			out[vc.elemSV(ms.Type().Underlying().(*types.Slice).Elem())] = true
		}
		if mm, ok := x.(*ssa.MakeMap); ok {
			d, _ := vc.mapSV(mm.Type().Underlying().(*types.Map))
			out[d] = true
		}
		if mi, ok := x.(*ssa.MakeInterface); ok {
			if vc.sortOf(mi.X.Type()) != "Int" || !(isPtrType(mi.X.Type()) || isStructLike(mi.X.Type())) {
				out[vc.cellSV(mi.X.Type())] = true
			}
		}
	case *ssa.UnOp:
		if x.Op == token.MUL && isStructLike(x.Type()) {
			out["G_alloc"] = true
			vc.modStructV(x.Type(), out)
		}
	case *ssa.Defer:
		name := "G_defer_"
		for k := range vc.svSort {
			if strings.HasPrefix(k, name) {
				out[k] = true
			}
		}
		vc.modCall(fn, x.Common(), out, depth, addAll)
	case *ssa.Call:
		vc.modCall(fn, x.Common(), out, depth, addAll)
	case *ssa.Go:
		vc.modCall(fn, x.Common(), out, depth, addAll)
	case *ssa.Next:
		for k := range vc.svSort {
			if strings.HasPrefix(k, "G_iterpos_") {
				out[k] = true
			}
		}
		out["G_iterpos_*"] = true
	case *ssa.Select:
		out["G_events"] = true
		for _, sst := range x.States {
			out["EV|"+vc.chanEventName(sst.Dir == types.SendOnly, sst.Chan)] = true
		}
	case *ssa.Send:
		out["G_events"] = true
		out["EV|"+vc.chanEventName(true, x.Chan)] = true
	}
	if u, ok := in.(*ssa.UnOp); ok && u.Op == token.ARROW {
		out["EV|"+vc.chanEventName(false, u.X)] = true
	}
}

// mapCard is the number of keys of map m in state st: an uninterpreted cardinality of its domain set (0 for nil).
func (vc *VC) mapCard(st *State, mt *types.Map, m string) string {
	ks := vc.sortOf(mt.Key())
	fn := "mapcard_" + sanitizeID(ks)
	vc.declareOnceRaw(fn, fmt.Sprintf("(declare-fun %s ((Array %s Bool)) Int)", fn, ks))
	dom, _ := vc.mapSV(mt)
	return fmt.Sprintf("(ite (= %s 0) 0 (%s (select %s %s)))", m, fn, vc.get(st, dom), m)
}

// chanEventName names the ghost event of a channel operation: "recv.T.f" / "send.T.f" when the channel is
// loaded from field f of struct type T, plain "recv" / "send" otherwise.
func (vc *VC) chanEventName(send bool, ch ssa.Value) string {
	op := "recv"
	if send {
		op = "send"
	}
	if u, ok := ch.(*ssa.UnOp); ok && u.Op == token.MUL {
		if structT, field, _, ok := vc.fieldOfAddr(u.X); ok {
			if n := namedOf(structT); n != nil {
				return op + "." + n.Obj().Name() + "." + structT.Underlying().(*types.Struct).Field(field).Name()
			}
		}
	}
	return op
}

// condEvent records a call event only when cond holds (used for the cases of a select).
func (vc *VC) condEvent(fr *Frame, st *State, cond string, name string, args []string) {
	if vc.eventNames == nil || !vc.eventNames[name] {
		return
	}
	id := sanitizeID(name)
	before := map[string]string{}
	for k := range vc.svSort {
		if k == "G_calls_"+id || strings.HasPrefix(k, "G_arg_"+id+"_") || strings.HasPrefix(k, "G_sum_"+id+"_") {
			before[k] = vc.get(st, k)
		}
	}
	vc.event(fr, st, name, args)
	keys := make([]string, 0, len(before))
	for k := range before {
		keys = append(keys, k)
	}
	sort.Strings(keys)
	for _, k := range keys {
		if after := vc.get(st, k); after != before[k] {
			vc.set(st, k, fmt.Sprintf("(ite %s %s %s)", cond, after, before[k]))
		}
	}
}

func isPtrType(t types.Type) bool {
	_, ok := t.Underlying().(*types.Pointer)
	return ok
}

func (vc *VC) modStructV(t types.Type, out map[string]bool) {
	s := t.Underlying().(*types.Struct)
	for i := 0; i < s.NumFields(); i++ {
		ft := s.Field(i).Type()
		if isStructLike(ft) {
			vc.modStructV(ft, out)
			continue
		}
		out[vc.valSV(t, i)] = true
	}
}

func (vc *VC) modStruct(t types.Type, out map[string]bool) {
	s := t.Underlying().(*types.Struct)
	for i := 0; i < s.NumFields(); i++ {
		ft := s.Field(i).Type()
		if isStructLike(ft) {
			vc.modStruct(ft, out)
			continue
		}
		sv, _ := vc.fieldSV(t, i)
		out[sv] = true
	}
}

func (vc *VC) modAddr(addr ssa.Value, out map[string]bool) {
	switch a := addr.(type) {
	case *ssa.FieldAddr:
		structT := a.X.Type().Underlying().(*types.Pointer).Elem()
		ft := structT.Underlying().(*types.Struct).Field(a.Field).Type()
		if isStackBase(a.X) {
			if isStructLike(ft) {
				vc.modStructV(ft, out)
			} else {
				out[vc.valSV(structT, a.Field)] = true
			}
			return
		}
		if isStructLike(ft) {
			vc.modStruct(ft, out)
		} else {
			sv, _ := vc.fieldSV(structT, a.Field)
			out[sv] = true
		}
		if vc.eng.isWaited(structT, a.Field) {
			out["G_dirty"] = true
		}
	case *ssa.IndexAddr:
		switch xt := a.X.Type().Underlying().(type) {
		case *types.Slice:
			out[vc.elemSV(xt.Elem())] = true
		case *types.Pointer:
			out[vc.elemSV(xt.Elem().Underlying().(*types.Array).Elem())] = true
		}
	case *ssa.Global:
		elem := a.Type().(*types.Pointer).Elem()
		if isStructLike(elem) {
			vc.modStruct(elem, out)
		} else {
			out["GV_"+sanitizeID(a.String())] = true
		}
	default:
		pt, ok := addr.Type().Underlying().(*types.Pointer)
		if !ok {
			return
		}
		if isStructLike(pt.Elem()) {
			vc.modStruct(pt.Elem(), out)
		} else {
			out[vc.cellSV(pt.Elem())] = true
		}
	}
}

func (vc *VC) modCall(fn *ssa.Function, c *ssa.CallCommon, out map[string]bool, depth int, addAll func()) {
	out["G_events"] = true
	if b, ok := c.Value.(*ssa.Builtin); ok {
		switch b.Name() {
		case "append":
			out["G_alloc"] = true
			out[vc.elemSV(c.Args[0].Type().Underlying().(*types.Slice).Elem())] = true
		case "copy":
			out[vc.elemSV(c.Args[0].Type().Underlying().(*types.Slice).Elem())] = true
		case "delete":
			d, _ := vc.mapSV(c.Args[0].Type().Underlying().(*types.Map))
			out[d] = true
		case "close":
			out["EV|close"] = true
		}
		return
	}
	var callees []*ssa.Function
	if c.IsInvoke() {
		out["EV|invoke."+c.Method.Name()] = true
		it, _ := c.Value.Type().Underlying().(*types.Interface)
		if it != nil && vc.eng.inModuleType(c.Value.Type()) {
			for _, t := range vc.eng.knownTypes() {
				if types.Implements(t, it) {
					if m := vc.eng.prog.LookupMethod(t, c.Method.Pkg(), c.Method.Name()); m != nil {
						callees = append(callees, m)
					}
				}
			}
		}
		if len(callees) == 0 {
			vc.modExternal(c, out)
			return
		}
	} else if sc := c.StaticCallee(); sc != nil {
		callees = []*ssa.Function{sc}
	} else {
		// dynamic call through a func-typed field with an abstract contract
		out["EV|dyncall"] = true
		if mc, ok := c.Value.(*ssa.MakeClosure); ok {
			if f, ok := mc.Fn.(*ssa.Function); ok {
				out["EV|"+shortFuncName(f)] = true
				for k := range vc.modSetFn(f, depth+1) {
					out[k] = true
				}
			}
		}
		if u, ok := c.Value.(*ssa.UnOp); ok && u.Op == token.MUL {
			if structT, field, _, ok := vc.fieldOfAddr(u.X); ok {
				if n := namedOf(structT); n != nil && n.Obj().Pkg() != nil {
					out["EV|"+n.Obj().Name()+"."+structT.Underlying().(*types.Struct).Field(field).Name()] = true
					key := n.Obj().Pkg().Path() + "." + n.Obj().Name() + "." + structT.Underlying().(*types.Struct).Field(field).Name()
					if ac, ok := vc.eng.contracts.Funcs[key]; ok && ac.Like != "" {
						out["G_alloc"] = true
						if like, ok := vc.eng.fnByKey[ac.Pkg+"."+ac.Like]; ok {
							for _, m := range ac.Modifies {
								for _, k := range vc.modTargetSVs(like, m) {
									out[k] = true
								}
							}
						}
						if ac.ModifiesAll {
							addAll()
						}
						return
					}
				}
			}
		}
		vc.modExternal(c, out)
		return
	}
	for _, callee := range callees {
		out["EV|"+shortFuncName(callee)] = true
		if cc := vc.eng.contracts.lookupFn(callee); cc != nil {
			for _, e := range cc.Ensures {
				for _, m := range callsRe.FindAllStringSubmatch(e, -1) {
					out["EV|"+m[1]] = true
				}
				for _, m := range callsumRe.FindAllStringSubmatch(e, -1) {
					out["EV|"+m[1]] = true
				}
			}
		} else if cc, ok := vc.eng.contracts.External[shortFuncName(callee)]; ok {
			for _, e := range cc.Ensures {
				for _, m := range callsRe.FindAllStringSubmatch(e, -1) {
					out["EV|"+m[1]] = true
				}
			}
		}
		switch callee.String() {
		case "(*sync.Mutex).Lock", "(*sync.RWMutex).Lock", "(*sync.RWMutex).RLock", "(*sync.Cond).Wait":
			if callee.String() != "(*sync.Cond).Wait" {
				out["G_held"] = true
				out["G_nheld"] = true
			}
			out["L|*"] = true
			for _, k := range vc.eng.guardedSVs(vc, "") {
				out[k] = true
			}
			continue
		}
		if eff := modelEffects(callee.String()); eff != nil {
			for _, k := range eff {
				out[k] = true
			}
			continue
		}
		if cc := vc.eng.contracts.lookupFn(callee); cc != nil {
			if cc.ModifiesAll {
				addAll()
				continue
			}
			out["G_alloc"] = true
			for _, m := range cc.Modifies {
				for _, k := range vc.modTargetSVs(callee, m) {
					out[k] = true
				}
			}
			continue
		}
		if vc.eng.inModule(callee) && len(callee.Blocks) > 0 && depth < maxInlineDepth+2 {
			for k := range vc.modSetFn(callee, depth+1) {
				out[k] = true
			}
			// closures created inside and called are covered by AnonFuncs of callee when invoked; conservatively include
			continue
		}
		vc.modExternal(c, out)
	}
}

func (vc *VC) modExternal(c *ssa.CallCommon, out map[string]bool) {
	out["G_alloc"] = true
	for _, a := range c.Args {
		if pt, ok := a.Type().Underlying().(*types.Pointer); ok {
			if isStructLike(pt.Elem()) {
				if !vc.eng.inModuleType(pt.Elem()) {
					vc.modStruct(pt.Elem(), out)
				}
			} else {
				out[vc.cellSV(pt.Elem())] = true
			}
		}
	}
}

// atCall checks the contract's "atcall <callee> <expr>" assertions in the state just before the call.
// Inside the expression, arg0, arg1, ... name the call's arguments (arg0 is the receiver of a method).
func (vc *VC) atCall(fr *Frame, st *State, calleeFn *ssa.Function, args []string, pos token.Pos) {
	var ptypes []types.Type
	if r := calleeFn.Signature.Recv(); r != nil {
		ptypes = append(ptypes, r.Type())
	}
	for i := 0; i < calleeFn.Signature.Params().Len(); i++ {
		ptypes = append(ptypes, calleeFn.Signature.Params().At(i).Type())
	}
	vc.atCallNamed(fr, st, shortFuncName(calleeFn), ptypes, args, pos)
}

// atCallNamed checks the "atcall <name>" clauses before a call event of that name (static callee, or "invoke.M" for a
// method call through an interface that is not resolved to a module implementation).
func (vc *VC) atCallNamed(fr *Frame, st *State, name string, ptypes []types.Type, args []string, pos token.Pos) {
	if vc.inSpec > 0 {
		return
	}
	var fc *FuncContract
	if fr.top {
		fc = vc.fc
	} else {
		fc = vc.eng.contracts.lookupFn(fr.fn)
	}
	if fc == nil || fc.AtCall == nil {
		return
	}
	exprs, ok := fc.AtCall[name]
	if !ok {
		return
	}
	nf := *fr
	nf.specEnv = map[string]specVal{}
	for k, v := range fr.specEnv {
		nf.specEnv[k] = v
	}
	for i, a := range args {
		var t types.Type = tInt
		if i < len(ptypes) {
			t = ptypes[i]
		}
		nf.specEnv[fmt.Sprintf("arg%d", i)] = specVal{term: a, typ: t, vspace: isStructLike(t)}
	}
	n := vc.ordinal("atcall/" + name)
	for i, e := range exprs {
		t, err := vc.specBoolAt(&nf, st, vc.entryFor(fr), e, fr.curBlock)
		if err != nil {
			vc.unsupportedf("atcall %s of %s: %v", name, fc.Key, err)
			continue
		}
		vc.oblige(st, "atcall", fmt.Sprintf("%s%s.%d.%d", fnTagDot(fr), name, n, i+1), "before calling "+name+": "+e, t, pos)
		vc.fact(st.pc, t) // assert, then assume: later obligations may use it as a lemma
	}
}

func isStackBase(v ssa.Value) bool {
	switch x := v.(type) {
	case *ssa.Alloc:
		return !x.Heap && isStructLike(x.Type().(*types.Pointer).Elem())
	case *ssa.FieldAddr:
		return isStackBase(x.X)
	}
	return false
}

func sigTypes(sig *types.Signature, withRecv bool) []types.Type {
	var out []types.Type
	if withRecv && sig.Recv() != nil {
		out = append(out, sig.Recv().Type())
	}
	for i := 0; i < sig.Params().Len(); i++ {
		out = append(out, sig.Params().At(i).Type())
	}
	return out
}

// assumeAfter: input-domain assumptions ("assumeafter <callee> <expr>") taken right after a call;
// ret0, ret1, ... name the call's results, arg0, ... its arguments. Every use is listed in the evidence.
func (vc *VC) assumeAfter(fr *Frame, st *State, calleeFn *ssa.Function, args, res []string, pos token.Pos) {
	if vc.inSpec > 0 || !fr.top || vc.fc == nil || vc.fc.AssumeAfter == nil {
		return
	}
	name := shortFuncName(calleeFn)
	exprs, ok := vc.fc.AssumeAfter[name]
	if !ok {
		return
	}
	nf := *fr
	nf.specEnv = map[string]specVal{}
	for k, v := range fr.specEnv {
		nf.specEnv[k] = v
	}
	var ptypes []types.Type
	if r := calleeFn.Signature.Recv(); r != nil {
		ptypes = append(ptypes, r.Type())
	}
	for i := 0; i < calleeFn.Signature.Params().Len(); i++ {
		ptypes = append(ptypes, calleeFn.Signature.Params().At(i).Type())
	}
	for i, a := range args {
		if i < len(ptypes) {
			nf.specEnv[fmt.Sprintf("arg%d", i)] = specVal{term: a, typ: ptypes[i]}
		}
	}
	for i, r := range res {
		nf.specEnv[fmt.Sprintf("ret%d", i)] = specVal{term: r, typ: calleeFn.Signature.Results().At(i).Type()}
	}
	for _, e := range exprs {
		t, err := vc.specBoolAt(&nf, st, vc.entryFor(fr), e, fr.curBlock)
		if err != nil {
			vc.unsupportedf("assumeafter %s of %s: %v", name, vc.fc.Key, err)
			continue
		}
		vc.fact(st.pc, t)
		vc.assume("INPUT-DOMAIN (" + vc.fc.Key + ", after " + name + "): " + e)
	}
}

// prov: provenance of v in the terms of the function under verification (parameters of inlined callees are
// replaced by the provenance of the arguments bound to them).
func (vc *VC) prov(fr *Frame, v ssa.Value) string {
	p := provenance(v, 0)
	if fr == nil || fr.paramProv == nil || p == "" {
		return p
	}
	star := ""
	q := p
	for strings.HasPrefix(q, "*") {
		star += "*"
		q = q[1:]
	}
	head := q
	rest := ""
	if i := strings.IndexAny(q, ".["); i >= 0 {
		head, rest = q[:i], q[i:]
	}
	if ap, ok := fr.paramProv[head]; ok && ap != "" {
		return star + strings.TrimPrefix(ap, "*") + rest
	}
	return p
}

// rewriteProv rewrites a provenance path stated over the callee's parameters ("t.TimeOffset",
// "*t.X") into the caller's terms ("m.Start.TimeOffset").
func rewriteProv(p string, callee *ssa.Function, argVals []ssa.Value) string {
	star := ""
	for strings.HasPrefix(p, "*") {
		star += "*"
		p = p[1:]
	}
	for i, prm := range callee.Params {
		if i >= len(argVals) {
			break
		}
		if p == prm.Name() || strings.HasPrefix(p, prm.Name()+".") {
			ap := provenance(argVals[i], 0)
			ap = strings.TrimPrefix(ap, "*")
			if ap == "" {
				return star + p
			}
			return star + ap + p[len(prm.Name()):]
		}
	}
	return star + p
}

// havocCalleeEvents: call events that the callee's postconditions talk about may have happened during
// the call. Their ghost counters advance by an arbitrary amount (the postconditions then say by how
// much), recorded arguments of earlier events are kept, running sums become arbitrary.
func (vc *VC) havocCalleeEvents(st *State, cc *FuncContract) {
	names := map[string]bool{}
	for _, e := range cc.Ensures {
		for _, m := range callsRe.FindAllStringSubmatch(e, -1) {
			names[m[1]] = true
		}
		for _, m := range callsumRe.FindAllStringSubmatch(e, -1) {
			names[m[1]] = true
		}
	}
	if len(names) == 0 {
		return
	}
	ns := make([]string, 0, len(names))
	for n := range names {
		ns = append(ns, n)
	}
	sort.Strings(ns)
	for _, name := range ns {
		sv := vc.eventCounter(name)
		old := vc.get(st, sv)
		nv := vc.fresh("Int", "havoc_calls")
		vc.fact(st.pc, fmt.Sprintf("(>= %s %s)", nv, old))
		st.vars[sv] = nv
		prefA := "G_arg_" + sanitizeID(name) + "_"
		prefS := "G_sum_" + sanitizeID(name) + "_"
		keys := make([]string, 0)
		for k := range vc.svSort {
			if strings.HasPrefix(k, prefA) || strings.HasPrefix(k, prefS) {
				keys = append(keys, k)
			}
		}
		sort.Strings(keys)
		for _, k := range keys {
			oldA := vc.get(st, k)
			na := vc.fresh(vc.svSort[k], "havoc_ev")
			if strings.HasPrefix(k, prefA) {
				vc.fact(st.pc, fmt.Sprintf("(forall ((k Int)) (! (=> (< k %s) (= (select %s k) (select %s k))) :pattern ((select %s k))))", old, na, oldA, na))
			}
			st.vars[k] = na
		}
	}
}

// ensuresClean: the callee's contract itself says that it leaves no pending wake-up (!dirty()).
func ensuresClean(cc *FuncContract) bool {
	for _, e := range cc.Ensures {
		if strings.Contains(e, "!dirty()") {
			return true
		}
	}
	return false
}
