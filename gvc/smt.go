package main

// SMT-LIB emission and solver racing.

import (
	"bytes"
	"context"
	"fmt"
	"os"
	"os/exec"
	"path/filepath"
	"strings"
	"sync"
	"time"
)

const refK = 4096 // allocation stride: fresh refs are refK*n, sub-objects are ref+j (0<j<refK)

const prelude = `(set-option :produce-models true)
(set-logic ALL)
(declare-datatypes ((Slice 0)) (((mk_slice (s_arr Int) (s_off Int) (s_len Int) (s_cap Int)))))
(declare-datatypes ((Iface 0)) (((mk_iface (if_type Int) (if_val Int)))))
(define-fun tdiv ((a Int) (b Int)) Int (ite (>= a 0) (ite (> b 0) (div a b) (- (div a (- b)))) (ite (> b 0) (- (div (- a) b)) (div (- a) (- b)))))
(define-fun tmod ((a Int) (b Int)) Int (- a (* b (tdiv a b))))
(define-fun wrapu ((x Int) (m Int)) Int (mod x m))
(define-fun wraps ((x Int) (m Int)) Int (- (mod (+ x (div m 2)) m) (div m 2)))
(define-fun imin ((a Int) (b Int)) Int (ite (<= a b) a b))
(define-fun imax ((a Int) (b Int)) Int (ite (>= a b) a b))
(define-fun rfloor ((x Real)) Int (to_int x))
(define-fun rceil ((x Real)) Int (- (to_int (- x))))
(define-fun rtrunc ((x Real)) Int (ite (>= x 0.0) (to_int x) (- (to_int (- x)))))
(define-fun rround ((x Real)) Int (ite (>= x 0.0) (to_int (+ x 0.5)) (- (to_int (+ (- x) 0.5)))))
(declare-fun slen (Int) Int)
(declare-fun scat (Int Int) Int)
(declare-fun ssub (Int Int Int) Int)
(declare-fun sbyte (Int Int) Int)
(declare-fun sprefix (Int Int) Bool)
(declare-fun cond_lock (Int) Int)
(declare-fun chancap (Int) Int)
(declare-fun scontains (Int Int) Bool)
(assert (forall ((a Int)) (! (scontains a a) :pattern ((scontains a a)))))
(assert (forall ((a Int) (b Int) (t Int)) (! (=> (or (scontains a t) (scontains b t)) (scontains (scat a b) t)) :pattern ((scontains (scat a b) t)))))
(assert (forall ((a Int) (b Int) (p Int)) (! (=> (sprefix a p) (sprefix (scat a b) p)) :pattern ((sprefix (scat a b) p)))))
(assert (forall ((a Int) (b Int) (p Int)) (! (=> (and (>= (slen a) (slen p)) (not (sprefix a p))) (not (sprefix (scat a b) p))) :pattern ((sprefix (scat a b) p)))))
(assert (forall ((a Int) (p Int) (q Int)) (! (=> (and (sprefix a p) (sprefix p q)) (sprefix a q)) :pattern ((sprefix a p) (sprefix p q)))))
(declare-fun ix (Int Int) Int)
(assert (forall ((o Int) (i Int)) (! (= (ix o i) (+ o i)) :pattern ((ix o i)))))
(define-fun nil_slice () Slice (mk_slice 0 0 0 0))
(define-fun nil_iface () Iface (mk_iface 0 0))
`

type solverSpec struct {
	name string
	argv []string
}

var solvers = []solverSpec{
	{"z3-new-5.1.0", []string{"z3-new", "-smt2"}},
	{"z3-4.8.12", []string{"/usr/bin/z3", "-smt2"}},
	{"cvc5-1.0", []string{"cvc5", "--lang=smt2", "--incremental"}},
}

type solveResult struct {
	verdict string // unsat | sat | unknown
	solver  string
	secs    float64
	raw     string            // raw output of the deciding (or last) solver
	all     map[string]string // verdict per solver that answered
	model   map[string]string // get-value output (name -> value) when sat
}

func which(name string) bool {
	_, err := exec.LookPath(name)
	return err == nil
}

var availableSolvers []solverSpec
var solversOnce sync.Once

func initSolvers() {
	solversOnce.Do(func() {
		for _, s := range solvers {
			if which(s.argv[0]) {
				availableSolvers = append(availableSolvers, s)
			}
		}
	})
}

// runOne runs one solver on the query file.
func runOne(ctx context.Context, s solverSpec, file string, timeout time.Duration) (string, string) {
	args := append([]string{}, s.argv[1:]...)
	switch {
	case strings.Contains(s.argv[0], "z3"):
		args = append(args, fmt.Sprintf("-T:%d", int(timeout.Seconds())+1))
	case strings.Contains(s.argv[0], "cvc5"):
		args = append(args, fmt.Sprintf("--tlimit=%d", timeout.Milliseconds()))
	}
	args = append(args, file)
	cmd := exec.CommandContext(ctx, s.argv[0], args...)
	var out bytes.Buffer
	cmd.Stdout = &out
	cmd.Stderr = &out
	cmd.Run() //nolint:errcheck
	raw := out.String()
	for _, line := range strings.Split(raw, "\n") {
		line = strings.TrimSpace(line)
		switch line {
		case "unsat", "sat":
			return line, raw
		case "unknown", "timeout":
			return "unknown", raw
		}
		if strings.HasPrefix(line, "(error") {
			return "unknown", raw
		}
	}
	return "unknown", raw
}

// solve races the available solvers on a query. wantModel: values to fetch on sat.
func solve(workdir, name, query string, values []string, timeout time.Duration, crossCheck bool) solveResult {
	initSolvers()
	q := query + "(check-sat)\n"
	if len(values) > 0 {
		q += "(get-value (" + strings.Join(values, " ") + "))\n"
	}
	file := filepath.Join(workdir, sanitize(name)+".smt2")
	os.WriteFile(file, []byte(q), 0o644) //nolint:errcheck

	ctx, cancel := context.WithCancel(context.Background())
	defer cancel()
	type ans struct {
		s       solverSpec
		verdict string
		raw     string
		secs    float64
	}
	ch := make(chan ans, len(availableSolvers))
	t0 := time.Now()
	for _, s := range availableSolvers {
		go func(s solverSpec) {
			st := time.Now()
			v, raw := runOne(ctx, s, file, timeout)
			ch <- ans{s, v, raw, time.Since(st).Seconds()}
		}(s)
	}
	res := solveResult{verdict: "unknown", all: map[string]string{}}
	got := 0
	for got < len(availableSolvers) {
		a := <-ch
		got++
		res.all[a.s.name] = a.verdict
		if a.verdict == "unsat" || a.verdict == "sat" {
			if res.verdict == "unknown" {
				res.verdict = a.verdict
				res.solver = a.s.name
				res.raw = a.raw
				res.secs = a.secs
			} else if res.verdict != a.verdict {
				// disagreement between solvers: treat as unknown, keep both outputs
				res.raw += "\n;; DISAGREEMENT " + a.s.name + ": " + a.raw
				res.verdict = "unknown"
				res.solver = ""
			}
			if !crossCheck {
				cancel()
				break
			}
		} else if res.raw == "" {
			res.raw = a.s.name + ": " + a.raw
		}
	}
	if res.secs == 0 {
		res.secs = time.Since(t0).Seconds()
	}
	if res.verdict == "sat" && len(values) > 0 {
		res.model = parseGetValue(res.raw)
	}
	return res
}

func sanitize(s string) string {
	var b strings.Builder
	for _, r := range s {
		if (r >= 'a' && r <= 'z') || (r >= 'A' && r <= 'Z') || (r >= '0' && r <= '9') || r == '_' || r == '-' || r == '.' {
			b.WriteRune(r)
		} else {
			b.WriteByte('_')
		}
	}
	out := b.String()
	if len(out) > 150 {
		out = out[:150]
	}
	return out
}

// parseGetValue parses "((a 1) (b (- 2)) ...)" into a map. Values are kept as
// SMT text except integers, which are normalised to decimal.
func parseGetValue(raw string) map[string]string {
	m := map[string]string{}
	i := strings.Index(raw, "((")
	if i < 0 {
		return m
	}
	s := raw[i:]
	toks := tokenize(s)
	pos := 0
	var parse func() interface{}
	parse = func() interface{} {
		if pos >= len(toks) {
			return ""
		}
		t := toks[pos]
		pos++
		if t == "(" {
			var l []interface{}
			for pos < len(toks) && toks[pos] != ")" {
				l = append(l, parse())
			}
			pos++
			return l
		}
		return t
	}
	top, ok := parse().([]interface{})
	if !ok {
		return m
	}
	for _, e := range top {
		pair, ok := e.([]interface{})
		if !ok || len(pair) != 2 {
			continue
		}
		m[sexpString(pair[0])] = normValue(pair[1])
	}
	return m
}

func tokenize(s string) []string {
	var toks []string
	cur := ""
	flush := func() {
		if cur != "" {
			toks = append(toks, cur)
			cur = ""
		}
	}
	for _, r := range s {
		switch r {
		case '(', ')':
			flush()
			toks = append(toks, string(r))
		case ' ', '\n', '\t', '\r':
			flush()
		default:
			cur += string(r)
		}
	}
	flush()
	return toks
}

func sexpString(e interface{}) string {
	switch v := e.(type) {
	case string:
		return v
	case []interface{}:
		parts := make([]string, len(v))
		for i, x := range v {
			parts[i] = sexpString(x)
		}
		return "(" + strings.Join(parts, " ") + ")"
	}
	return ""
}

func normValue(e interface{}) string {
	if l, ok := e.([]interface{}); ok && len(l) == 2 {
		if s, ok := l[0].(string); ok && s == "-" {
			return "-" + normValue(l[1])
		}
	}
	return sexpString(e)
}
