package main

import (
	"fmt"
	"go/token"
	"go/types"
	"strings"

	"golang.org/x/tools/go/ssa"
)

func (vc *VC) bind(fr *Frame, v ssa.Value, sortName, term string) string {
	t := vc.def(sortName, term, "v"+fmt.Sprint(fr.id)+"_"+v.Name())
	fr.env[v] = t
	return t
}

func (vc *VC) safety(fr *Frame, st *State, kind, desc, goal string, pos token.Pos) {
	if vc.fc != nil && vc.fc.NoSafety {
		return
	}
	vc.oblige(st, kind, fmt.Sprintf("%s%d", fnTagDot(fr), vc.ordinal(kind+"/"+fnTagDot(fr))), desc, goal, pos)
}

func (vc *VC) execInstr(fr *Frame, st *State, instr ssa.Instruction) {
	switch x := instr.(type) {
	case *ssa.DebugRef:
		return

	case *ssa.Alloc:
		elem := x.Type().(*types.Pointer).Elem()
		r := vc.alloc(st, x.Comment)
		fr.env[x] = r
		if isStructLike(elem) {
			space := "F"
			if !x.Heap {
				space = "V" // non-escaping struct local: private space, never aliases the heap
			}
			vc.zeroStructSp(st, r, elem, space)
			fr.locs[x] = &Loc{kind: "sub", typ: elem, sub: true, subRef: r, base: r, space: space}
		} else if arr, ok := elem.Underlying().(*types.Array); ok {
			// fixed array: elements live in the element heap under id r
			ev := vc.elemSV(arr.Elem())
			vc.set(st, ev, fmt.Sprintf("(store %s %s ((as const (Array Int %s)) %s))", vc.get(st, ev), r, vc.sortOf(arr.Elem()), vc.constZero(arr.Elem())))
		} else {
			cell := vc.cellSV(elem)
			vc.set(st, cell, fmt.Sprintf("(store %s %s %s)", vc.get(st, cell), r, vc.zeroOf(elem)))
			fr.locs[x] = &Loc{kind: "cell", sv: cell, base: r, typ: elem}
		}

	case *ssa.FieldAddr:
		base := vc.value(fr, st, x.X)
		structT := x.X.Type().Underlying().(*types.Pointer).Elem()
		vc.safety(fr, st, "nil", "pointer is non-nil at field access ."+structT.Underlying().(*types.Struct).Field(x.Field).Name(),
			fmt.Sprintf("(not (= %s 0))", base), x.Pos())
		space := "F"
		if pl, ok := fr.locs[x.X]; ok && pl.space == "V" {
			space = "V"
		}
		loc := vc.fieldLocSp(base, structT, x.Field, space)
		fr.locs[x] = loc
		vc.guardedAccess(fr, st, structT, x.Field, base, x, x.Pos())

	case *ssa.Field:
		// field of a struct value (value space)
		base := vc.value(fr, st, x.X)
		ft := x.X.Type().Underlying().(*types.Struct).Field(x.Field).Type()
		if isStructLike(ft) {
			vc.bind(fr, x, "Int", fmt.Sprintf("(+ %s %d)", base, subOffset(x.X.Type(), x.Field)))
		} else {
			sv := vc.valSV(x.X.Type(), x.Field)
			t := vc.bind(fr, x, vc.sortOf(x.Type()), fmt.Sprintf("(select %s %s)", vc.get(st, sv), base))
			vc.typeFacts(st, t, x.Type())
		}

	case *ssa.IndexAddr:
		idx := vc.value(fr, st, x.Index)
		switch xt := x.X.Type().Underlying().(type) {
		case *types.Slice:
			s := vc.value(fr, st, x.X)
			vc.safety(fr, st, "bounds", "slice index in range",
				fmt.Sprintf("(and (<= 0 %s) (< %s (s_len %s)))", idx, idx, s), x.Pos())
			fr.locs[x] = &Loc{kind: "elem", sv: vc.elemSV(xt.Elem()), base: fmt.Sprintf("(s_arr %s)", s),
				idx: vc.def("Int", fmt.Sprintf("(ix (s_off %s) %s)", s, idx), "ix"), typ: xt.Elem()}
			if isStructLike(xt.Elem()) {
				vc.unsupportedf("slice of struct values in %s", fr.fn.Name())
			}
		case *types.Pointer: // pointer to array
			arr := xt.Elem().Underlying().(*types.Array)
			p := vc.value(fr, st, x.X)
			vc.safety(fr, st, "bounds", "array index in range",
				fmt.Sprintf("(and (<= 0 %s) (< %s %d))", idx, idx, arr.Len()), x.Pos())
			fr.locs[x] = &Loc{kind: "elem", sv: vc.elemSV(arr.Elem()), base: p, idx: idx, typ: arr.Elem()}
		default:
			vc.unsupportedf("IndexAddr on %s", x.X.Type())
		}

	case *ssa.Index:
		// index of array value or string: v[i]
		idx := vc.value(fr, st, x.Index)
		base := vc.value(fr, st, x.X)
		if b, ok := x.X.Type().Underlying().(*types.Basic); ok && b.Info()&types.IsString != 0 {
			vc.safety(fr, st, "bounds", "string index in range",
				fmt.Sprintf("(and (<= 0 %s) (< %s (slen %s)))", idx, idx, base), x.Pos())
			t := vc.bind(fr, x, "Int", fmt.Sprintf("(sbyte %s %s)", base, idx))
			vc.fact(st.pc, fmt.Sprintf("(and (<= 0 %s) (<= %s 255))", t, t))
			return
		}
		if arr, ok := x.X.Type().Underlying().(*types.Array); ok {
			vc.safety(fr, st, "bounds", "array index in range",
				fmt.Sprintf("(and (<= 0 %s) (< %s %d))", idx, idx, arr.Len()), x.Pos())
			ev := vc.elemSV(arr.Elem())
			vc.bind(fr, x, vc.sortOf(x.Type()), fmt.Sprintf("(select (select %s %s) %s)", vc.get(st, ev), base, idx))
			return
		}
		vc.havocValue(fr, st, x, "Index on "+x.X.Type().String())

	case *ssa.UnOp:
		vc.execUnOp(fr, st, x)

	case *ssa.Store:
		loc := vc.locOf(fr, st, x.Addr)
		if loc.kind == "cell" || (loc.kind == "sub" && !isLocalAlloc(x.Addr)) {
			vc.safety(fr, st, "nil", "pointer is non-nil at store", fmt.Sprintf("(not (= %s 0))", loc.base), x.Pos())
		}
		val := vc.value(fr, st, x.Val)
		vc.writeLoc(st, loc, val)
		vc.noteStore(fr, st, x.Addr, loc, x.Pos())
		vc.frameStore(fr, st, x.Addr, loc, x.Pos())

	case *ssa.BinOp:
		vc.execBinOp(fr, st, x)

	case *ssa.Convert:
		vc.execConvert(fr, st, x)

	case *ssa.ChangeType:
		fr.env[x] = vc.value(fr, st, x.X)
		if c, ok := fr.closures[x.X]; ok {
			fr.closures[x] = c
		}

	case *ssa.ChangeInterface:
		fr.env[x] = vc.value(fr, st, x.X)

	case *ssa.MakeInterface:
		v := vc.value(fr, st, x.X)
		tid := vc.typeID(x.X.Type())
		payload := vc.ifacePayload(fr, st, v, x.X.Type())
		vc.bind(fr, x, "Iface", fmt.Sprintf("(mk_iface %d %s)", tid, payload))

	case *ssa.TypeAssert:
		vc.execTypeAssert(fr, st, x)

	case *ssa.Extract:
		tup := fr.tuples[x.Tuple]
		if x.Index < len(tup) {
			fr.env[x] = tup[x.Index]
		} else {
			vc.havocValue(fr, st, x, "extract from unknown tuple")
		}

	case *ssa.Call:
		vc.execCall(fr, st, x, x.Common(), x)

	case *ssa.Defer:
		// record; executed at RunDefers
		args := make([]string, len(x.Call.Args))
		for i, a := range x.Call.Args {
			args[i] = vc.value(fr, st, a)
		}
		if x.Call.IsInvoke() || x.Call.StaticCallee() == nil {
			if _, ok := x.Call.Value.(*ssa.MakeClosure); !ok {
				args = append([]string{vc.value(fr, st, x.Call.Value)}, args...)
			}
		}
		// registered flag is a state variable so that it merges across paths
		name := fmt.Sprintf("G_defer_%d_%d", fr.id, len(fr.defers))
		vc.svDeclare(name, "Bool")
		vc.fact("true", fmt.Sprintf("(not %s)", vc.svInit[name]))
		st.vars[name] = "true"
		fr.defers = append(fr.defers, &deferRec{instr: x, reg: name, args: args})

	case *ssa.RunDefers:
		for i := len(fr.defers) - 1; i >= 0; i-- {
			d := fr.defers[i]
			reg := vc.get(st, d.reg)
			if reg == vc.svInit[d.reg] || reg == "false" {
				continue
			}
			// fork: registered / not registered
			yes := st.clone()
			yes.pc = vc.def("Bool", fmt.Sprintf("(and %s %s)", st.pc, reg), "pc")
			no := st.clone()
			no.pc = vc.def("Bool", fmt.Sprintf("(and %s (not %s))", st.pc, reg), "pc")
			vc.execDeferred(fr, yes, d)
			m := vc.merge([]*State{yes, no})
			st.pc = m.pc
			st.vars = m.vars
		}

	case *ssa.MakeSlice:
		n := vc.value(fr, st, x.Len)
		c := vc.value(fr, st, x.Cap)
		elem := x.Type().Underlying().(*types.Slice).Elem()
		vc.safety(fr, st, "bounds", "make: 0 <= len <= cap", fmt.Sprintf("(and (<= 0 %s) (<= %s %s))", n, n, c), x.Pos())
		a := vc.alloc(st, "arr")
		ev := vc.elemSV(elem)
		vc.set(st, ev, fmt.Sprintf("(store %s %s ((as const (Array Int %s)) %s))", vc.get(st, ev), a, vc.sortOf(elem), vc.constZero(elem)))
		vc.bind(fr, x, "Slice", fmt.Sprintf("(mk_slice %s 0 %s %s)", a, n, c))

	case *ssa.Slice:
		vc.execSlice(fr, st, x)

	case *ssa.MakeMap:
		m := vc.alloc(st, "map")
		fr.env[x] = m
		mt := x.Type().Underlying().(*types.Map)
		dom, _ := vc.mapSV(mt)
		vc.set(st, dom, fmt.Sprintf("(store %s %s ((as const (Array %s Bool)) false))", vc.get(st, dom), m, vc.sortOf(mt.Key())))

	case *ssa.MapUpdate:
		m := vc.value(fr, st, x.Map)
		k := vc.value(fr, st, x.Key)
		v := vc.value(fr, st, x.Value)
		mt := x.Map.Type().Underlying().(*types.Map)
		vc.safety(fr, st, "nil", "map is non-nil at update", fmt.Sprintf("(not (= %s 0))", m), x.Pos())
		dom, val := vc.mapSV(mt)
		vc.set(st, dom, fmt.Sprintf("(store %s %s (store (select %s %s) %s true))", vc.get(st, dom), m, vc.get(st, dom), m, k))
		vc.set(st, val, fmt.Sprintf("(store %s %s (store (select %s %s) %s %s))", vc.get(st, val), m, vc.get(st, val), m, k, v))
		vc.noteMapWrite(fr, st, x.Map, x.Pos())
		vc.assignCheck(fr, st, dom, m, x.Pos())

	case *ssa.Lookup:
		vc.execLookup(fr, st, x)

	case *ssa.Range:
		// iterator over map or string
		it := vc.fresh("Int", "iter")
		fr.env[x] = it
		if mt, isMap := x.X.Type().Underlying().(*types.Map); isMap {
			// ghost traversal order: keys iterkey(0..n-1) enumerate exactly the domain (map unchanged while iterating)
			vc.n++
			id := vc.n
			kf := fmt.Sprintf("iterkey_%d", id)
			vc.declareOnceRaw(kf, fmt.Sprintf("(declare-fun %s (Int) %s)", kf, vc.sortOf(mt.Key())))
			n := vc.fresh("Int", "iterlen")
			m := vc.value(fr, st, x.X)
			dom, _ := vc.mapSV(mt)
			d := vc.def(fmt.Sprintf("(Array %s Bool)", vc.sortOf(mt.Key())), fmt.Sprintf("(select %s %s)", vc.get(st, dom), m), "iterdom")
			vc.fact(st.pc, fmt.Sprintf("(>= %s 0)", n))
			vc.fact(st.pc, fmt.Sprintf("(=> (= %s 0) (= %s 0))", m, n))
			vc.fact(st.pc, fmt.Sprintf("(= %s %s)", n, vc.mapCard(st, mt, m)))
			vc.fact(st.pc, fmt.Sprintf("(forall ((j Int)) (! (=> (and (<= 0 j) (< j %s)) (select %s (%s j))) :pattern ((%s j))))", n, d, kf, kf))
			vc.fact(st.pc, fmt.Sprintf("(forall ((k %s)) (! (=> (and (not (= %s 0)) (select %s k)) (exists ((j Int)) (and (<= 0 j) (< j %s) (= (%s j) k)))) :pattern ((select %s k))))", vc.sortOf(mt.Key()), m, d, n, kf, d))
			pos := fmt.Sprintf("G_iterpos_%d", id)
			vc.svDeclare(pos, "Int")
			st.vars[pos] = "0"
			vc.iters[x] = &mapIter{keyFn: kf, n: n, pos: pos, m: m, keyType: mt.Key()}
			vc.lastIter = vc.iters[x]
			vc.assume("map iteration visits every key of the map exactly once in an arbitrary order (ghost enumeration); the map is not modified during the iteration")
		}

	case *ssa.Next:
		rng := x.Iter.(*ssa.Range)
		tt := x.Type().(*types.Tuple)
		if mi, ok := vc.iters[rng]; ok {
			pos := vc.get(st, mi.pos)
			okT := vc.def("Bool", fmt.Sprintf("(< %s %s)", pos, mi.n), "next_ok")
			k := vc.def(vc.sortOf(tt.At(1).Type()), fmt.Sprintf("(%s %s)", mi.keyFn, pos), "next_k")
			mt := rng.X.Type().Underlying().(*types.Map)
			_, val := vc.mapSV(mt)
			var v string
			if isInvalid(tt.At(2).Type()) {
				v = "0"
			} else {
				v = vc.def(vc.sortOf(tt.At(2).Type()), fmt.Sprintf("(select (select %s %s) %s)", vc.get(st, val), mi.m, k), "next_v")
				vc.typeFacts(st, v, tt.At(2).Type())
			}
			if !isInvalid(tt.At(1).Type()) {
				vc.typeFacts(st, k, tt.At(1).Type())
			}
			vc.set(st, mi.pos, fmt.Sprintf("(ite %s (+ %s 1) %s)", okT, pos, pos))
			fr.tuples[x] = []string{okT, k, v}
			return
		}
		// string iteration: opaque
		ok := vc.fresh("Bool", "next_ok")
		k := vc.fresh(vc.sortOf(tt.At(1).Type()), "next_k")
		v := vc.fresh(vc.sortOf(tt.At(2).Type()), "next_v")
		if !isInvalid(tt.At(1).Type()) {
			vc.typeFacts(st, k, tt.At(1).Type())
		}
		if !isInvalid(tt.At(2).Type()) {
			vc.typeFacts(st, v, tt.At(2).Type())
		}
		fr.tuples[x] = []string{ok, k, v}

	case *ssa.MakeChan:
		fr.env[x] = vc.alloc(st, "chan")
		vc.fact(st.pc, fmt.Sprintf("(= (chancap %s) %s)", fr.env[x], vc.value(fr, st, x.Size)))

	case *ssa.MakeClosure:
		r := vc.alloc(st, "closure")
		fr.env[x] = r
		fr.closures[x] = x

	case *ssa.Go:
		vc.assume("goroutine bodies started with 'go' are not part of the sequential verification condition (K5 structural checks only)")

	case *ssa.Send:
		vc.event(fr, st, vc.chanEventName(true, x.Chan), []string{vc.value(fr, st, x.Chan)})
		vc.assume("channel sends are not modelled beyond their ghost event (K5 structural checks only)")

	case *ssa.Select:
		// tuple (index, recvOk, recv...): havoc
		tt := x.Type().(*types.Tuple)
		vals := make([]string, tt.Len())
		for i := 0; i < tt.Len(); i++ {
			vals[i] = vc.fresh(vc.sortOf(tt.At(i).Type()), "select")
			vc.typeFacts(st, vals[i], tt.At(i).Type())
		}
		vc.fact(st.pc, fmt.Sprintf("(and (<= %d %s) (< %s %d))", ternInt(x.Blocking, 0, -1), vals[0], vals[0], len(x.States)))
		fr.tuples[x] = vals
		for i, sst := range x.States {
			// ghost event of the case that was taken
			vc.condEvent(fr, st, fmt.Sprintf("(= %s %d)", vals[0], i), vc.chanEventName(sst.Dir == types.SendOnly, sst.Chan), []string{vc.value(fr, st, sst.Chan)})
		}
		vc.waitPoint(fr, st, "select")
		vc.assume("select: an arbitrary ready case is taken; received values are arbitrary")

	default:
		vc.unsupportedf("instruction %T in %s", instr, fr.fn.Name())
		if v, ok := instr.(ssa.Value); ok {
			vc.havocValue(fr, st, v, fmt.Sprintf("%T", instr))
		}
	}
}

func isInvalid(t types.Type) bool {
	b, ok := t.(*types.Basic)
	return ok && b.Kind() == types.Invalid
}

func ternInt(c bool, a, b int) int {
	if c {
		return a
	}
	return b
}

func isLocalAlloc(v ssa.Value) bool {
	_, ok := v.(*ssa.Alloc)
	return ok
}

func (vc *VC) havocValue(fr *Frame, st *State, v ssa.Value, why string) {
	if tt, ok := v.Type().(*types.Tuple); ok {
		vals := make([]string, tt.Len())
		for i := 0; i < tt.Len(); i++ {
			vals[i] = vc.fresh(vc.sortOf(tt.At(i).Type()), "hv")
			vc.typeFacts(st, vals[i], tt.At(i).Type())
		}
		fr.tuples[v] = vals
		return
	}
	t := vc.fresh(vc.sortOf(v.Type()), "hv_"+v.Name())
	vc.typeFacts(st, t, v.Type())
	fr.env[v] = t
}

func (vc *VC) mapSV(mt *types.Map) (dom, val string) {
	key := sanitizeID(typeKey(mt.Key())) + "_" + sanitizeID(typeKey(mt.Elem()))
	dom = "MD_" + key
	val = "MV_" + key
	vc.svDeclare(dom, fmt.Sprintf("(Array Int (Array %s Bool))", vc.sortOf(mt.Key())))
	vc.svDeclareT(val, fmt.Sprintf("(Array Int (Array %s %s))", vc.sortOf(mt.Key()), vc.sortOf(mt.Elem())), mt.Elem(), 2, vc.sortOf(mt.Key()))
	return
}

func (vc *VC) ifacePayload(fr *Frame, st *State, v string, t types.Type) string {
	switch vc.sortOf(t) {
	case "Int":
		if _, isPtr := t.Underlying().(*types.Pointer); isPtr || isStructLike(t) {
			return v
		}
		// box scalars
		p := vc.alloc(st, "box")
		cell := vc.cellSV(t)
		vc.set(st, cell, fmt.Sprintf("(store %s %s %s)", vc.get(st, cell), p, v))
		return p
	default:
		p := vc.alloc(st, "box")
		cell := vc.cellSV(t)
		vc.set(st, cell, fmt.Sprintf("(store %s %s %s)", vc.get(st, cell), p, v))
		return p
	}
}

func (vc *VC) ifaceUnbox(st *State, iface string, t types.Type) string {
	if _, isPtr := t.Underlying().(*types.Pointer); isPtr || isStructLike(t) {
		return fmt.Sprintf("(if_val %s)", iface)
	}
	cell := vc.cellSV(t)
	return fmt.Sprintf("(select %s (if_val %s))", vc.get(st, cell), iface)
}

func (vc *VC) execTypeAssert(fr *Frame, st *State, x *ssa.TypeAssert) {
	v := vc.value(fr, st, x.X)
	var ok, val string
	if _, isIface := x.AssertedType.Underlying().(*types.Interface); isIface {
		// interface-to-interface: ok iff dynamic type implements; known for module types
		ok = vc.implementsTerm(v, x.AssertedType)
		val = v
	} else {
		tid := vc.typeID(x.AssertedType)
		ok = vc.def("Bool", fmt.Sprintf("(= (if_type %s) %d)", v, tid), "ta_ok")
		val = vc.ifaceUnbox(st, v, x.AssertedType)
	}
	if x.CommaOk {
		zero := vc.zeroOf(x.AssertedType)
		valT := vc.def(vc.sortOf(x.AssertedType), fmt.Sprintf("(ite %s %s %s)", ok, val, zero), "ta_v")
		fr.tuples[x] = []string{valT, ok}
		return
	}
	vc.safety(fr, st, "typeassert", "type assertion to "+typeKey(x.AssertedType)+" succeeds", ok, x.Pos())
	vc.bind(fr, x, vc.sortOf(x.AssertedType), val)
	// after a successful assertion the dynamic type is known
	if vc.inSpec == 0 {
		vc.fact(st.pc, ok)
	}
}

func (vc *VC) implementsTerm(iface string, target types.Type) string {
	it := target.Underlying().(*types.Interface)
	var alts []string
	for _, t := range vc.eng.knownTypes() {
		if types.Implements(t, it) {
			alts = append(alts, fmt.Sprintf("(= (if_type %s) %d)", iface, vc.typeID(t)))
		}
	}
	u := vc.fresh("Bool", "impl_unknown")
	alts = append(alts, fmt.Sprintf("(and %s (> (if_type %s) %d))", u, iface, vc.eng.maxKnownTypeID()))
	return vc.def("Bool", "(or "+strings.Join(alts, " ")+")", "impl")
}

func (vc *VC) execUnOp(fr *Frame, st *State, x *ssa.UnOp) {
	switch x.Op {
	case token.MUL: // load
		loc := vc.locOf(fr, st, x.X)
		if loc.kind == "cell" || (loc.kind == "sub" && !isLocalAlloc(x.X)) {
			if _, known := fr.locs[x.X]; !known {
				vc.safety(fr, st, "nil", "pointer is non-nil at load", fmt.Sprintf("(not (= %s 0))", loc.base), x.Pos())
			}
		}
		t := vc.bind(fr, x, vc.sortOf(x.Type()), vc.readLoc(st, loc))
		vc.typeFacts(st, t, x.Type())
		vc.noteLoad(fr, st, x.X, loc, x.Pos())
		if isStringType(x.Type()) {
			vc.setShape(t, shHole("str", vc.prov(fr, x)))
		}
	case token.NOT:
		vc.bind(fr, x, "Bool", fmt.Sprintf("(not %s)", vc.value(fr, st, x.X)))
	case token.SUB:
		v := vc.value(fr, st, x.X)
		if vc.sortOf(x.Type()) == "Real" {
			vc.bind(fr, x, "Real", fmt.Sprintf("(- %s)", v))
		} else {
			vc.bind(fr, x, "Int", vc.wrapIf(fmt.Sprintf("(- %s)", v), x.Type(), true))
		}
	case token.ARROW:
		vc.event(fr, st, vc.chanEventName(false, x.X), []string{vc.value(fr, st, x.X)})
		vc.havocValue(fr, st, x, "channel receive")
		vc.waitPoint(fr, st, "recv")
		vc.assume("channel receives yield arbitrary values (K5 structural checks only)")
	default:
		vc.havocValue(fr, st, x, "unary "+x.Op.String())
		vc.assume("bitwise complement is not modelled (result arbitrary)")
	}
}

// wrapIf applies machine-integer wrap-around when required.
func (vc *VC) wrapIf(term string, t types.Type, force bool) string {
	mod, signed, ok := intModulus(t)
	if !ok {
		return term
	}
	wrapAll := vc.fc != nil && vc.fc.Arith == "wrap"
	if !force && !wrapAll {
		return term
	}
	if signed {
		if !wrapAll {
			return term // signed arithmetic is mathematical unless arith wrap
		}
		return fmt.Sprintf("(wraps %s %s)", term, mod)
	}
	return fmt.Sprintf("(wrapu %s %s)", term, mod)
}

func (vc *VC) execBinOp(fr *Frame, st *State, x *ssa.BinOp) {
	a := vc.value(fr, st, x.X)
	b := vc.value(fr, st, x.Y)
	xt := x.X.Type()
	srt := vc.sortOf(xt)
	isStr := false
	if bt, ok := xt.Underlying().(*types.Basic); ok && bt.Info()&types.IsString != 0 {
		isStr = true
	}
	_, _, isInt := intRange(xt)
	_, signed, _ := intModulus(x.Type())
	switch x.Op {
	case token.ADD:
		if isStr {
			t := vc.bind(fr, x, "Int", fmt.Sprintf("(scat %s %s)", a, b))
			vc.fact(st.pc, fmt.Sprintf("(= (slen %s) (+ (slen %s) (slen %s)))", t, a, b))
			vc.setShape(t, shCat(vc.shapeOf(a), vc.shapeOf(b)))
			return
		}
		if srt == "Real" {
			vc.bind(fr, x, "Real", fmt.Sprintf("(+ %s %s)", a, b))
			return
		}
		vc.arith(fr, st, x, fmt.Sprintf("(+ %s %s)", a, b), false)
	case token.SUB:
		if srt == "Real" {
			vc.bind(fr, x, "Real", fmt.Sprintf("(- %s %s)", a, b))
			return
		}
		vc.arith(fr, st, x, fmt.Sprintf("(- %s %s)", a, b), !signed)
	case token.MUL:
		if srt == "Real" {
			vc.bind(fr, x, "Real", fmt.Sprintf("(* %s %s)", a, b))
			return
		}
		vc.arith(fr, st, x, fmt.Sprintf("(* %s %s)", a, b), false)
	case token.QUO:
		if srt == "Real" {
			vc.bind(fr, x, "Real", fmt.Sprintf("(/ %s %s)", a, b))
			return
		}
		vc.safety(fr, st, "div", "integer divisor is non-zero", fmt.Sprintf("(not (= %s 0))", b), x.Pos())
		if !signed {
			vc.bind(fr, x, "Int", fmt.Sprintf("(div %s %s)", a, b))
		} else {
			vc.bind(fr, x, "Int", fmt.Sprintf("(tdiv %s %s)", a, b))
		}
	case token.REM:
		vc.safety(fr, st, "div", "integer divisor is non-zero", fmt.Sprintf("(not (= %s 0))", b), x.Pos())
		if !signed {
			vc.bind(fr, x, "Int", fmt.Sprintf("(mod %s %s)", a, b))
		} else {
			vc.bind(fr, x, "Int", fmt.Sprintf("(tmod %s %s)", a, b))
		}
	case token.EQL, token.NEQ:
		var eq string
		if srt == "Iface" {
			// comparing interfaces: same dynamic type and same payload (pointer identity)
			eq = fmt.Sprintf("(= %s %s)", a, b)
		} else if srt == "Slice" {
			// only comparison with nil is legal
			other := a
			if a == "nil_slice" {
				other = b
			}
			eq = fmt.Sprintf("(= (s_arr %s) 0)", other)
		} else {
			eq = fmt.Sprintf("(= %s %s)", a, b)
		}
		if x.Op == token.NEQ {
			eq = "(not " + eq + ")"
		}
		vc.bind(fr, x, "Bool", eq)
	case token.LSS, token.LEQ, token.GTR, token.GEQ:
		if isStr {
			vc.havocValue(fr, st, x, "string ordering")
			return
		}
		op := map[token.Token]string{token.LSS: "<", token.LEQ: "<=", token.GTR: ">", token.GEQ: ">="}[x.Op]
		vc.bind(fr, x, "Bool", fmt.Sprintf("(%s %s %s)", op, a, b))
	case token.LAND, token.AND:
		if srt == "Bool" {
			vc.bind(fr, x, "Bool", fmt.Sprintf("(and %s %s)", a, b))
			return
		}
		vc.bitop(fr, st, x, a, b, isInt)
	case token.LOR, token.OR:
		if srt == "Bool" {
			vc.bind(fr, x, "Bool", fmt.Sprintf("(or %s %s)", a, b))
			return
		}
		vc.bitop(fr, st, x, a, b, isInt)
	case token.SHL, token.SHR, token.XOR, token.AND_NOT:
		vc.bitop(fr, st, x, a, b, isInt)
	default:
		vc.havocValue(fr, st, x, "binop "+x.Op.String())
	}
}

func (vc *VC) arith(fr *Frame, st *State, x *ssa.BinOp, term string, forceWrapUnsigned bool) {
	t := x.Type()
	if vc.fc != nil && vc.fc.Arith == "nooverflow" {
		if lo, hi, ok := intRange(t); ok {
			r := vc.def("Int", term, "ar")
			vc.oblige(st, "overflow", fmt.Sprintf("%s%d", fnTagDot(fr), vc.ordinal("overflow")), "arithmetic result fits "+t.String(),
				fmt.Sprintf("(and (<= %s %s) (<= %s %s))", smtInt(lo), r, r, smtInt(hi)), x.Pos())
			vc.bind(fr, x, "Int", r)
			return
		}
	}
	_, signed, _ := intModulus(t)
	if !signed && vc.fc != nil && vc.fc.Arith == "math" {
		vc.assume("A-INT: unsigned machine arithmetic treated as mathematical in " + vc.fc.Key + " (declared 'arith math': sizes and offsets stay far below 2^64)")
		vc.bind(fr, x, "Int", term)
		return
	}
	if !signed {
		// unsigned arithmetic wraps exactly (subtraction underflow is a real-world pattern)
		vc.bind(fr, x, "Int", vc.wrapIf(term, t, forceWrapUnsigned || true))
		return
	}
	if vc.fc != nil && vc.fc.Arith == "wrap" {
		vc.bind(fr, x, "Int", vc.wrapIf(term, t, true))
		return
	}
	vc.assume("signed machine arithmetic (+,-,*) treated as mathematical (no overflow) in functions without 'arith wrap' or 'arith nooverflow'")
	vc.bind(fr, x, "Int", term)
}

func (vc *VC) bitop(fr *Frame, st *State, x *ssa.BinOp, a, b string, isInt bool) {
	// constant shifts become multiplications / divisions; masks by 2^k-1 become mod
	if c, ok := x.Y.(*ssa.Const); ok && c.Value != nil {
		if n, ok2 := constInt(c); ok2 {
			switch x.Op {
			case token.SHL:
				vc.bind(fr, x, "Int", vc.wrapIf(fmt.Sprintf("(* %s %s)", a, pow2(n)), x.Type(), true))
				return
			case token.SHR:
				vc.bind(fr, x, "Int", fmt.Sprintf("(div %s %s)", a, pow2(n)))
				return
			case token.AND:
				if n >= 0 && (n&(n+1)) == 0 {
					vc.bind(fr, x, "Int", fmt.Sprintf("(mod %s %d)", a, n+1))
					return
				}
			}
		}
	}
	vc.havocValue(fr, st, x, "bit operation "+x.Op.String())
	vc.assume("bitwise operations other than constant shifts and low-bit masks are not modelled (result arbitrary within the type's range)")
}

func constInt(c *ssa.Const) (int64, bool) {
	if c.Value == nil {
		return 0, false
	}
	return c.Int64(), c.Value.Kind() == 3 // constant.Int
}

func pow2(n int64) string {
	r := "1"
	v := uint64(1)
	if n < 63 {
		v <<= uint(n)
		return fmt.Sprint(v)
	}
	for i := int64(0); i < n; i++ {
		r = fmt.Sprintf("(* 2 %s)", r)
	}
	return r
}

func (vc *VC) execConvert(fr *Frame, st *State, x *ssa.Convert) {
	v := vc.value(fr, st, x.X)
	from, to := x.X.Type(), x.Type()
	fs, ts := vc.sortOf(from), vc.sortOf(to)
	_, _, fromInt := intRange(from)
	_, _, toInt := intRange(to)
	switch {
	case fromInt && toInt:
		flo, fhi, _ := intRange(from)
		tlo, thi, _ := intRange(to)
		// widening conversions are the identity
		if cmpBig(tlo, flo) <= 0 && cmpBig(fhi, thi) <= 0 {
			fr.env[x] = v
			return
		}
		mod, signed, _ := intModulus(to)
		if vc.fc != nil && vc.fc.Arith == "math" && mod == "18446744073709551616" {
			// declared 'arith math': 64-bit values stay far inside their range, conversions between
			// int / int64 / uint64 are the identity (assumption A-INT, recorded by arith())
			vc.assume("A-INT: conversions between 64-bit integer types treated as the identity in " + vc.fc.Key + " (declared 'arith math')")
			if _, fromSigned, _ := intModulus(from); fromSigned && !signed {
				vc.oblige(st, "overflow", fmt.Sprintf("%sconv.%d", fnTagDot(fr), vc.ordinal("convneg")), "signed value converted to an unsigned type is not negative",
					fmt.Sprintf("(>= %s 0)", v), x.Pos())
			}
			fr.env[x] = v
			return
		}
		if signed {
			vc.bind(fr, x, "Int", fmt.Sprintf("(wraps %s %s)", v, mod))
		} else {
			vc.bind(fr, x, "Int", fmt.Sprintf("(wrapu %s %s)", v, mod))
		}
	case fromInt && ts == "Real":
		vc.bind(fr, x, "Real", fmt.Sprintf("(to_real %s)", v))
		vc.assume("A-FP: float64 is modelled as exact real arithmetic")
	case fs == "Real" && toInt:
		vc.bind(fr, x, "Int", fmt.Sprintf("(rtrunc %s)", v))
		vc.assume("A-FP: float64 is modelled as exact real arithmetic")
	case fs == "Real" && ts == "Real":
		fr.env[x] = v
	default:
		// string <-> []byte, etc: opaque conversion preserving length
		t := vc.fresh(ts, "conv")
		vc.typeFacts(st, t, to)
		fr.env[x] = t
		if ts == "Slice" && isStringType(from) {
			vc.setShape(t, vc.shapeOf(v))
			vc.fact(st.pc, fmt.Sprintf("(and (= (s_len %s) (slen %s)) (= (s_off %s) 0))", t, v, t))
		} else if isStringType(to) && fs == "Slice" {
			vc.fact(st.pc, fmt.Sprintf("(= (slen %s) (s_len %s))", t, v))
		} else if isStringType(to) && fromInt {
			// string(rune)
		}
	}
}

func isStringType(t types.Type) bool {
	b, ok := t.Underlying().(*types.Basic)
	return ok && b.Info()&types.IsString != 0
}

func cmpBig(a, b string) int {
	na, nb := strings.HasPrefix(a, "-"), strings.HasPrefix(b, "-")
	if na != nb {
		if na {
			return -1
		}
		return 1
	}
	aa, bb := strings.TrimPrefix(a, "-"), strings.TrimPrefix(b, "-")
	c := 0
	if len(aa) != len(bb) {
		if len(aa) < len(bb) {
			c = -1
		} else {
			c = 1
		}
	} else {
		c = strings.Compare(aa, bb)
	}
	if na {
		return -c
	}
	return c
}

func (vc *VC) execSlice(fr *Frame, st *State, x *ssa.Slice) {
	base := vc.value(fr, st, x.X)
	lo := "0"
	if x.Low != nil {
		lo = vc.value(fr, st, x.Low)
	}
	switch xt := x.X.Type().Underlying().(type) {
	case *types.Basic: // string
		hi := fmt.Sprintf("(slen %s)", base)
		if x.High != nil {
			hi = vc.value(fr, st, x.High)
		}
		vc.safety(fr, st, "bounds", "string slice bounds in range",
			fmt.Sprintf("(and (<= 0 %s) (<= %s %s) (<= %s (slen %s)))", lo, lo, hi, hi, base), x.Pos())
		t := vc.bind(fr, x, "Int", fmt.Sprintf("(ssub %s %s %s)", base, lo, hi))
		vc.fact(st.pc, fmt.Sprintf("(= (slen %s) (- %s %s))", t, hi, lo))
		// s[0:len(s)] is s itself
		vc.fact(st.pc, fmt.Sprintf("(=> (and (= %s 0) (= %s (slen %s))) (= %s %s))", lo, hi, base, t, base))
	case *types.Slice:
		hi := fmt.Sprintf("(s_len %s)", base)
		if x.High != nil {
			hi = vc.value(fr, st, x.High)
		}
		mx := fmt.Sprintf("(s_cap %s)", base)
		if x.Max != nil {
			mx = vc.value(fr, st, x.Max)
		}
		vc.safety(fr, st, "bounds", "slice bounds in range",
			fmt.Sprintf("(and (<= 0 %s) (<= %s %s) (<= %s %s) (<= %s (s_cap %s)))", lo, lo, hi, hi, mx, mx, base), x.Pos())
		if lo == "0" {
			vc.bind(fr, x, "Slice", fmt.Sprintf("(mk_slice (s_arr %s) (s_off %s) %s (- %s %s))", base, base, hi, mx, lo))
		} else {
			// the new offset is a named constant so that it can appear in a quantifier pattern
			noff := vc.fresh("Int", "off")
			ooff := vc.fresh("Int", "off0")
			vc.fact("true", fmt.Sprintf("(and (= %s (s_off %s)) (= %s (+ %s %s)))", ooff, base, noff, ooff, lo))
			vc.bind(fr, x, "Slice", fmt.Sprintf("(mk_slice (s_arr %s) %s (- %s %s) (- %s %s))", base, noff, hi, lo, mx, lo))
			// relate element positions of the re-sliced view to those of the original (for quantifier instantiation)
			vc.fact("true", fmt.Sprintf("(forall ((i Int)) (! (= (ix %s i) (ix %s (+ i %s))) :pattern ((ix %s i))))", noff, ooff, lo, noff))
		}
	case *types.Pointer: // pointer to array
		arr := xt.Elem().Underlying().(*types.Array)
		hi := fmt.Sprint(arr.Len())
		if x.High != nil {
			hi = vc.value(fr, st, x.High)
		}
		vc.safety(fr, st, "bounds", "array slice bounds in range",
			fmt.Sprintf("(and (<= 0 %s) (<= %s %s) (<= %s %d))", lo, lo, hi, hi, arr.Len()), x.Pos())
		vc.bind(fr, x, "Slice", fmt.Sprintf("(mk_slice %s %s (- %s %s) (- %d %s))", base, lo, hi, lo, arr.Len(), lo))
	default:
		vc.havocValue(fr, st, x, "slice of "+x.X.Type().String())
	}
}

func (vc *VC) execLookup(fr *Frame, st *State, x *ssa.Lookup) {
	m := vc.value(fr, st, x.X)
	k := vc.value(fr, st, x.Index)
	if isStringType(x.X.Type()) {
		vc.safety(fr, st, "bounds", "string index in range",
			fmt.Sprintf("(and (<= 0 %s) (< %s (slen %s)))", k, k, m), x.Pos())
		t := vc.bind(fr, x, "Int", fmt.Sprintf("(sbyte %s %s)", m, k))
		vc.fact(st.pc, fmt.Sprintf("(and (<= 0 %s) (<= %s 255))", t, t))
		return
	}
	mt := x.X.Type().Underlying().(*types.Map)
	dom, val := vc.mapSV(mt)
	has := vc.def("Bool", fmt.Sprintf("(and (not (= %s 0)) (select (select %s %s) %s))", m, vc.get(st, dom), m, k), "has")
	v := vc.def(vc.sortOf(mt.Elem()), fmt.Sprintf("(ite %s (select (select %s %s) %s) %s)", has, vc.get(st, val), m, k, vc.zeroOf(mt.Elem())), "mv")
	vc.typeFacts(st, v, mt.Elem())
	vc.noteMapRead(fr, st, x.X, x.Pos())
	if x.CommaOk {
		fr.tuples[x] = []string{v, has}
		return
	}
	fr.env[x] = v
}

// frameStore checks a store against the modifies clause.
func (vc *VC) frameStore(fr *Frame, st *State, addr ssa.Value, loc *Loc, pos token.Pos) {
	// stores into objects allocated by this activation are always allowed
	switch a := addr.(type) {
	case *ssa.Alloc:
		return
	case *ssa.FieldAddr:
		if _, ok := a.X.(*ssa.Alloc); ok {
			return
		}
	case *ssa.IndexAddr:
		if _, ok := a.X.(*ssa.Alloc); ok {
			return
		}
		if sl, ok := a.X.(*ssa.Slice); ok {
			if _, ok := sl.X.(*ssa.Alloc); ok {
				return
			}
		}
		if _, ok := a.X.(*ssa.MakeSlice); ok {
			return
		}
	}
	switch loc.kind {
	case "field", "cell", "elem":
		vc.assignCheck(fr, st, loc.sv, loc.base, pos)
	case "sub":
		ms := map[string]bool{}
		vc.modStruct(loc.typ, ms)
		for sv := range ms {
			vc.assignCheck(fr, st, sv, loc.subRef, pos)
		}
	case "global":
		vc.assignCheckWhole(fr, st, loc.sv, pos)
	}
}

// constZero: the zero value as an SMT value literal (cvc5 requires literals in constant arrays).
func (vc *VC) constZero(t types.Type) string {
	switch vc.sortOf(t) {
	case "Slice":
		return "(mk_slice 0 0 0 0)"
	case "Iface":
		return "(mk_iface 0 0)"
	case "Bool":
		return "false"
	case "Real":
		return "0.0"
	}
	if isStringType(t) {
		return "(- 1)" // id of the empty string literal is assigned first; see strLit
	}
	return "0"
}

type mapIter struct {
	keyFn   string
	n       string
	pos     string
	m       string
	keyType types.Type
}
