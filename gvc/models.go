package main

// Models of library functions (assumed contracts on dependencies, T3) and the K2 ghost protocol
// (locks, condition variables, guarded fields, call events).

import (
	"fmt"
	"go/token"
	"go/types"
	"strings"

	"golang.org/x/tools/go/ssa"
)

// shortFuncName: "muxerPart.writeSample", "sync.Cond.Broadcast", "strings.HasPrefix", "muxerStream.rotateParts$1".
func shortFuncName(f *ssa.Function) string {
	root := f
	for root.Parent() != nil {
		root = root.Parent()
	}
	name := f.Name()
	pkgName := ""
	if root.Pkg != nil {
		pkgName = root.Pkg.Pkg.Name()
	} else if root.Signature.Recv() != nil {
		if n := namedOf(root.Signature.Recv().Type()); n != nil && n.Obj().Pkg() != nil {
			pkgName = n.Obj().Pkg().Name()
		}
	}
	recv := ""
	if root.Signature.Recv() != nil {
		if n := namedOf(root.Signature.Recv().Type()); n != nil {
			recv = n.Obj().Name()
		}
	}
	out := name
	if recv != "" {
		out = recv + "." + name
	}
	if pkgName != "" && pkgName != "gohlslib" {
		out = pkgName + "." + out
	}
	return out
}

func namedOf(t types.Type) *types.Named {
	if pt, ok := t.(*types.Pointer); ok {
		t = pt.Elem()
	}
	n, _ := t.(*types.Named)
	return n
}

func (vc *VC) eventCounter(name string) string {
	sv := "G_calls_" + sanitizeID(name)
	vc.svDeclare(sv, "Int")
	return sv
}

func (vc *VC) eventArg(name string, i int) (string, types.Type) {
	sv := fmt.Sprintf("G_arg_%s_%d", sanitizeID(name), i)
	srt := "Int"
	var typ types.Type = tInt
	if t, ok := vc.eventArgTypes[sv]; ok {
		typ = t
		srt = vc.sortOf(t)
	}
	vc.svDeclare(sv, fmt.Sprintf("(Array Int %s)", srt))
	return sv, typ
}

// event records a call event if some specification of this VC mentions it.
func (vc *VC) event(fr *Frame, st *State, full string, args []string, argTypes ...types.Type) {
	name := full
	if vc.eventNames == nil {
		return
	}
	if !vc.eventNames[name] {
		return
	}
	sv := vc.eventCounter(name)
	cur := vc.get(st, sv)
	for i, a := range args {
		if sk := fmt.Sprintf("G_sum_%s_%d", sanitizeID(name), i); vc.svSort[sk] == "Int" {
			vc.set(st, sk, fmt.Sprintf("(+ %s %s)", vc.get(st, sk), a))
		}
		key := fmt.Sprintf("G_arg_%s_%d", sanitizeID(name), i)
		if srt, ok := vc.svSort[key]; ok {
			if srt == "(Array Int Int)" && i < len(argTypes) && argTypes[i] != nil {
				switch vc.sortOf(argTypes[i]) {
				case "Slice":
					a = fmt.Sprintf("(s_arr %s)", a)
				case "Iface":
					a = fmt.Sprintf("(if_val %s)", a)
				case "Bool":
					a = fmt.Sprintf("(ite %s 1 0)", a)
				case "Real":
					continue
				}
			}
			vc.set(st, key, fmt.Sprintf("(store %s %s %s)", vc.get(st, key), cur, a))
		}
	}
	vc.set(st, sv, fmt.Sprintf("(+ %s 1)", cur))
}

func modelEffects(full string) []string {
	switch full {
	case "(*sync.Mutex).Lock", "(*sync.Mutex).Unlock", "(*sync.RWMutex).Lock", "(*sync.RWMutex).Unlock",
		"(*sync.RWMutex).RLock", "(*sync.RWMutex).RUnlock":
		return []string{"G_held", "G_nheld"}
	case "(*sync.Cond).Broadcast", "(*sync.Cond).Signal":
		return []string{"G_dirty"}
	}
	if pureModels[full] {
		return []string{}
	}
	if full == "(*os.File).Seek" {
		return []string{"G_filepos"}
	}
	return nil
}

var pureModels = map[string]bool{
	"strings.HasPrefix": true, "strings.Contains": true, "strings.IndexByte": true, "strings.TrimSpace": true, "strings.TrimLeft": true,
	"strconv.ParseUint": true, "strconv.FormatUint": true, "strconv.FormatInt": true, "strconv.FormatFloat": true,
	"strconv.ParseFloat": true, "(time.Duration).Seconds": true, "math.Round": true, "math.Ceil": true, "math.Floor": true,
	"(time.Time).Add": true, "(time.Time).Sub": true, "bytes.Equal": true, "fmt.Errorf": true, "errors.New": true,
	"fmt.Sprintf": true, "time.Now": true, "time.Since": true, "strings.Join": true, "strings.Split": true, "strings.SplitN": true,
	"(*github.com/bluenviron/mediacommon/v2/pkg/formats/fmp4/seekablebuffer.Buffer).Bytes": true, "(*bytes.Buffer).Bytes": true,
	"(time.Duration).Milliseconds": true, "errors.Is": true, "os.Create": true, "os.Open": true, "bufio.NewWriter": true, "bytes.NewReader": true, "io.NewOffsetWriter": true, "io.NopCloser": true, "io.NewSectionReader": true, "(time.Time).Format": true, "time.Parse": true,
}

func (vc *VC) errIface(st *State, hint string) string {
	e := vc.fresh("Iface", hint)
	vc.fact(st.pc, fmt.Sprintf("(and (> (if_type %s) 0) (> (if_val %s) 0))", e, e))
	return e
}

// modelCall returns (results, true) when callee has a built-in model.
func (vc *VC) modelCall(fr *Frame, st *State, callee *ssa.Function, args []string, argVals []ssa.Value, pos token.Pos) ([]string, bool) {
	full := callee.String()
	switch full {
	case "(*sync.Mutex).Lock", "(*sync.RWMutex).Lock":
		vc.noteLock(args[0])
		vc.svDeclare("G_held", "(Array Int Int)")
		h := vc.get(st, "G_held")
		vc.lockObl(fr, st, "lock", "lock is not already held by this thread at Lock (self-deadlock)", fmt.Sprintf("(= (select %s %s) 0)", h, args[0]), pos)
		vc.set(st, "G_held", fmt.Sprintf("(store %s %s 1)", h, args[0]))
		vc.svDeclare("G_nheld", "Int")
		vc.set(st, "G_nheld", fmt.Sprintf("(+ %s 1)", vc.get(st, "G_nheld")))
		vc.acquire(fr, st, vc.eng.lockClassOf(argVal(argVals, 0)))
		return nil, true
	case "(*sync.Mutex).Unlock", "(*sync.RWMutex).Unlock":
		vc.noteLock(args[0])
		vc.svDeclare("G_held", "(Array Int Int)")
		h := vc.get(st, "G_held")
		vc.lockObl(fr, st, "lock", "lock is held at Unlock", fmt.Sprintf("(= (select %s %s) 1)", h, args[0]), pos)
		// atomicity of the caller's critical section: a lock that was already held when this function
		// was entered is not released by it (other threads would observe an intermediate state)
		if vc.entry != nil {
			vc.lockObl(fr, st, "lock-atomic", "the lock released here was not held at entry: the caller's critical section is not split",
				fmt.Sprintf("(= (select %s %s) 0)", vc.get(vc.entry, "G_held"), args[0]), pos)
		}
		vc.set(st, "G_held", fmt.Sprintf("(store %s %s 0)", h, args[0]))
		vc.svDeclare("G_nheld", "Int")
		vc.set(st, "G_nheld", fmt.Sprintf("(- %s 1)", vc.get(st, "G_nheld")))
		return nil, true
	case "(*sync.RWMutex).RLock":
		vc.noteLock(args[0])
		vc.svDeclare("G_held", "(Array Int Int)")
		h := vc.get(st, "G_held")
		vc.lockObl(fr, st, "lock", "lock is not already held by this thread at RLock", fmt.Sprintf("(= (select %s %s) 0)", h, args[0]), pos)
		vc.set(st, "G_held", fmt.Sprintf("(store %s %s 2)", h, args[0]))
		vc.acquire(fr, st, vc.eng.lockClassOf(argVal(argVals, 0)))
		return nil, true
	case "(*sync.RWMutex).RUnlock":
		vc.noteLock(args[0])
		vc.svDeclare("G_held", "(Array Int Int)")
		h := vc.get(st, "G_held")
		vc.lockObl(fr, st, "lock", "read lock is held at RUnlock", fmt.Sprintf("(= (select %s %s) 2)", h, args[0]), pos)
		vc.set(st, "G_held", fmt.Sprintf("(store %s %s 0)", h, args[0]))
		return nil, true
	case "(*sync.Cond).Wait":
		vc.svDeclare("G_held", "(Array Int Int)")
		h := vc.get(st, "G_held")
		vc.lockObl(fr, st, "lock", "the condition variable's lock is held at Wait", fmt.Sprintf("(= (select %s (cond_lock %s)) 1)", h, args[0]), pos)
		if vc.entry != nil {
			vc.lockObl(fr, st, "lock-atomic", "the lock released by Wait was not held at entry: the caller's critical section is not split",
				fmt.Sprintf("(= (select %s (cond_lock %s)) 0)", vc.get(vc.entry, "G_held"), args[0]), pos)
		}
		vc.condWait(fr, st, vc.eng.lockClassOf(argVal(argVals, 0)), pos)
		return nil, true
	case "(*sync.Cond).Broadcast":
		vc.svDeclare("G_dirty", "Bool")
		st.vars["G_dirty"] = "false"
		return nil, true
	case "(*sync.Cond).Signal":
		// Signal wakes one waiter only: with several waiters (of possibly different predicates) on the
		// condition variable the others keep sleeping, so a pending wake-up is not discharged by it
		vc.assume("sync.Cond.Signal is treated as not discharging a pending wake-up (several handlers may wait on the same condition variable)")
		return nil, true
	case "sync.NewCond":
		r := vc.alloc(st, "cond")
		vc.fact(st.pc, fmt.Sprintf("(= (cond_lock %s) (if_val %s))", r, args[0]))
		return []string{r}, true

	case "strings.HasPrefix":
		r := vc.def("Bool", fmt.Sprintf("(sprefix %s %s)", args[0], args[1]), "hasprefix")
		vc.fact(st.pc, fmt.Sprintf("(=> %s (>= (slen %s) (slen %s)))", r, args[0], args[1]))
		return []string{r}, true
	case "strings.Contains":
		return []string{vc.def("Bool", fmt.Sprintf("(scontains %s %s)", args[0], args[1]), "contains")}, true
	case "strings.IndexByte":
		r := vc.fresh("Int", "indexbyte")
		vc.fact(st.pc, fmt.Sprintf("(and (<= (- 1) %s) (< %s (slen %s)) (=> (>= %s 0) (= (sbyte %s %s) %s)))", r, r, args[0], r, args[0], r, args[1]))
		return []string{r}, true
	case "strings.TrimSpace", "strings.TrimLeft":
		r := vc.fresh("Int", "trim")
		vc.fact(st.pc, fmt.Sprintf("(and (>= (slen %s) 0) (<= (slen %s) (slen %s)))", r, r, args[0]))
		return []string{r}, true
	case "strings.Split":
		r := vc.fresh("Slice", "split")
		vc.typeFacts(st, r, callee.Signature.Results().At(0).Type())
		vc.fact(st.pc, fmt.Sprintf("(and (>= (s_len %s) 1) (> (s_arr %s) 0))", r, r))
		vc.fact(st.pc, fmt.Sprintf("(=> (scontains %s %s) (>= (s_len %s) 2))", args[0], args[1], r))
		vc.assume("T3 strings.Split with a non-empty separator returns at least one element, at least two when the separator occurs")
		return []string{r}, true
	case "strings.SplitN":
		r := vc.fresh("Slice", "splitn")
		vc.typeFacts(st, r, callee.Signature.Results().At(0).Type())
		vc.fact(st.pc, fmt.Sprintf("(=> (> %s 0) (and (>= (s_len %s) 1) (<= (s_len %s) %s) (> (s_arr %s) 0)))", args[2], r, r, args[2], r))
		return []string{r}, true
	case "strings.Join", "fmt.Sprintf", "strconv.FormatFloat", "(time.Time).Format":
		r := vc.fresh("Int", "str")
		vc.fact(st.pc, fmt.Sprintf("(>= (slen %s) 0)", r))
		src := ""
		if len(argVals) > 0 {
			src = vc.prov(fr, argVals[0])
		}
		switch full {
		case "strconv.FormatFloat":
			kind := "any"
			if f, ok := constArg(argVals, 1); ok && f == 'f' {
				if p, ok := constArg(argVals, 2); ok && (p == 5 || p == 3) {
					kind = fmt.Sprintf("float%d", p)
				}
			}
			// the text denotes the float64 argument only when it is formatted as one: with bit size 32 the value is
			// first rounded to float32, so what is written is no longer the value of the expression it came from
			if b, ok := constArg(argVals, 3); !ok || b != 64 {
				src = ""
			}
			vc.setShape(r, shHole(kind, src))
		case "(time.Time).Format":
			vc.setShape(r, shHole("time", src))
		case "strings.Join":
			vc.setShape(r, shHole("str", src))
		}
		return []string{r}, true
	case "strconv.FormatUint", "strconv.FormatInt":
		r := vc.def("Int", fmt.Sprintf("(itoa %s)", args[0]), "itoa")
		vc.needItoa()
		vc.fact(st.pc, fmt.Sprintf("(>= (slen %s) 1)", r))
		kind := "int"
		if full == "strconv.FormatUint" {
			kind = "uint"
		}
		src := ""
		if len(argVals) > 0 {
			src = vc.prov(fr, argVals[0])
		}
		vc.setShape(r, shHole(kind, src))
		return []string{r}, true
	case "strconv.ParseUint":
		// the value is a (deterministic) function of the text, the base and the bit size: specifications name it parseuint(s, base, bits)
		vc.declareOnceRaw("parseuint_val", "(declare-fun parseuint_val (Int Int Int) Int)")
		v := vc.def("Int", fmt.Sprintf("(parseuint_val %s %s %s)", args[0], args[1], args[2]), "parseuint")
		e := vc.fresh("Iface", "parseerr")
		vc.typeFacts(st, e, callee.Signature.Results().At(1).Type())
		// bitSize argument bounds the value on success; on error the value is 0 or max (we keep it in range)
		vc.fact(st.pc, fmt.Sprintf("(and (<= 0 %s) (<= %s 18446744073709551615))", v, v))
		if c, ok := constArg(argVals, 2); ok && c > 0 && c < 64 {
			vc.fact(st.pc, fmt.Sprintf("(=> (= (if_type %s) 0) (< %s %s))", e, v, pow2(c)))
		}
		vc.fact(st.pc, fmt.Sprintf("(=> (= (slen %s) 0) (> (if_type %s) 0))", args[0], e))
		return []string{v, e}, true
	case "strconv.ParseFloat":
		vc.declareOnceRaw("parsefloat_val", "(declare-fun parsefloat_val (Int Int) Real)")
		v := vc.def("Real", fmt.Sprintf("(parsefloat_val %s %s)", args[0], args[1]), "parsefloat")
		e := vc.fresh("Iface", "parseerr")
		vc.typeFacts(st, e, callee.Signature.Results().At(1).Type())
		return []string{v, e}, true
	case "(time.Duration).Seconds":
		vc.assume("A-FP: Duration.Seconds is modelled as exact real division by 1e9")
		return []string{vc.def("Real", fmt.Sprintf("(/ (to_real %s) 1000000000.0)", args[0]), "secs")}, true
	case "(time.Duration).Milliseconds":
		return []string{vc.def("Int", fmt.Sprintf("(tdiv %s 1000000)", args[0]), "ms")}, true
	case "math.Round":
		vc.assume("A-FP: math.Round is modelled on exact reals (half away from zero)")
		return []string{vc.def("Real", fmt.Sprintf("(to_real (rround %s))", args[0]), "round")}, true
	case "math.Ceil":
		vc.assume("A-FP: math.Ceil is modelled on exact reals")
		return []string{vc.def("Real", fmt.Sprintf("(to_real (rceil %s))", args[0]), "ceil")}, true
	case "math.Floor":
		return []string{vc.def("Real", fmt.Sprintf("(to_real (rfloor %s))", args[0]), "floor")}, true
	case "(time.Time).Add":
		vc.assume("time.Time is modelled as an integer count of nanoseconds (Add/Sub exact, no monotonic clock reading)")
		return []string{vc.def("Int", fmt.Sprintf("(+ %s %s)", args[0], args[1]), "tadd")}, true
	case "(time.Time).Sub":
		return []string{vc.def("Int", fmt.Sprintf("(- %s %s)", args[0], args[1]), "tsub")}, true
	case "time.Now":
		return []string{vc.fresh("Int", "now")}, true
	case "time.Since":
		return []string{vc.fresh("Int", "since")}, true
	case "time.Parse":
		v := vc.fresh("Int", "parsetime")
		e := vc.fresh("Iface", "parseerr")
		vc.typeFacts(st, e, callee.Signature.Results().At(1).Type())
		return []string{v, e}, true
	case "bytes.Equal":
		r := vc.fresh("Bool", "bytes_eq")
		// reflexivity: the same slice value is equal to itself
		vc.fact(st.pc, fmt.Sprintf("(=> (= %s %s) %s)", args[0], args[1], r))
		return []string{r}, true
	case "fmt.Errorf", "errors.New":
		return []string{vc.errIface(st, "err")}, true
	case "(*github.com/bluenviron/mediacommon/v2/pkg/formats/fmp4/seekablebuffer.Buffer).Bytes", "(*bytes.Buffer).Bytes":
		// T3: Bytes() is a pure function of the buffer and of the number of buffer mutations so far
		vc.svDeclare("G_bufepoch", "Int")
		vc.declareOnceRaw("buf_bytes", "(declare-fun buf_bytes (Int Int) Slice)")
		r := vc.def("Slice", fmt.Sprintf("(buf_bytes %s %s)", args[0], vc.get(st, "G_bufepoch")), "bytes")
		vc.typeFacts(st, r, callee.Signature.Results().At(0).Type())
		vc.fact(st.pc, fmt.Sprintf("(<= (s_len %s) 2305843009213693952)", r))
		vc.assume("T3 seekablebuffer.Buffer.Bytes is a pure function of the buffer object and the mutation epoch; a buffer holds at most 2^61 bytes")
		return []string{r}, true
	case "os.Create", "os.Open":
		f := vc.fresh("Int", "osfile")
		e := vc.fresh("Iface", "oserr")
		vc.typeFacts(st, e, callee.Signature.Results().At(1).Type())
		vc.fact(st.pc, fmt.Sprintf("(and (>= %s 0) (< %s %s) (=> (= (if_type %s) 0) (> %s 0)))", f, f, vc.allocBound(st), e, f))
		vc.assume("T3 os.Create/os.Open return a non-nil file when the error is nil")
		return []string{f, e}, true
	case "(*os.File).Seek":
		// ghost read/write position of the file object (whence 0 = io.SeekStart)
		vc.svDeclare("G_filepos", "(Array Int Int)")
		n := vc.fresh("Int", "seekpos")
		e := vc.fresh("Iface", "seekerr")
		vc.typeFacts(st, e, callee.Signature.Results().At(1).Type())
		np := vc.fresh("Int", "filepos")
		vc.fact(st.pc, fmt.Sprintf("(=> (and (= (if_type %s) 0) (= %s 0)) (and (= %s %s) (= %s %s)))", e, args[2], np, args[1], n, args[1]))
		vc.set(st, "G_filepos", fmt.Sprintf("(store %s %s %s)", vc.get(st, "G_filepos"), args[0], np))
		vc.assume("T3 os.File.Seek(off, io.SeekStart) positions the file at off when it succeeds")
		return []string{n, e}, true
	case "io.NewSectionReader":
		vc.declareOnceRaw("sr_off", "(declare-fun sr_off (Int) Int)")
		vc.declareOnceRaw("sr_len", "(declare-fun sr_len (Int) Int)")
		r := vc.alloc(st, "sectionreader")
		vc.fact(st.pc, fmt.Sprintf("(and (= (sr_off %s) %s) (= (sr_len %s) %s))", r, args[1], r, args[2]))
		vc.assume("T3 io.NewSectionReader(r, off, n) reads the n bytes of r that start at off")
		return []string{r}, true
	case "bufio.NewWriter", "bytes.NewReader", "io.NewOffsetWriter", "io.NopCloser":
		vc.assume("T3 " + full + " returns a non-nil value")
		if full == "io.NopCloser" {
			return []string{vc.errIface(st, "nopcloser")}, true
		}
		r := vc.alloc(st, "ext")
		return []string{r}, true
	case "errors.Is":
		return []string{vc.fresh("Bool", "errors_is")}, true
	}
	return nil, false
}

func (vc *VC) needItoa() {
	vc.declareOnceRaw("itoa", "(declare-fun itoa (Int) Int)")
}

func (vc *VC) declareOnceRaw(name, line string) {
	if vc.declared == nil {
		vc.declared = map[string]bool{}
	}
	if vc.declared[name] {
		return
	}
	vc.declared[name] = true
	vc.decls = append(vc.decls, line)
}

func constArg(argVals []ssa.Value, i int) (int64, bool) {
	if i >= len(argVals) {
		return 0, false
	}
	c, ok := argVals[i].(*ssa.Const)
	if !ok {
		return 0, false
	}
	return constInt(c)
}

func (vc *VC) modelInvoke(fr *Frame, st *State, c *ssa.CallCommon, recv string, args []string, pos token.Pos) ([]string, bool) {
	// error.Error(), fmt.Stringer: pure
	if c.Method.Name() == "Error" && c.Signature().Params().Len() == 0 {
		r := vc.fresh("Int", "errstr")
		vc.fact(st.pc, fmt.Sprintf("(>= (slen %s) 0)", r))
		return []string{r}, true
	}
	// sync.Locker via interface (cond.L.Lock()) not used here
	return nil, false
}

// ------------------------------------------------------------------ K2: locks, guarded fields, dirty bit

func (vc *VC) noteLock(t string) {
	for _, x := range vc.lockTerms {
		if x == t {
			return
		}
	}
	vc.lockTerms = append(vc.lockTerms, t)
}

func (vc *VC) lockObl(fr *Frame, st *State, kind, desc, goal string, pos token.Pos) {
	if vc.inSpec > 0 {
		return
	}
	vc.oblige(st, kind, fmt.Sprintf("%s%d", fnTagDot(fr), vc.ordinal(kind+"/"+fnTagDot(fr))), desc, goal, pos)
}

// condWait: other threads run; every guarded field (and what hangs off it) may change.
func (vc *VC) condWait(fr *Frame, st *State, class string, pos token.Pos) {
	vc.assume("A-MON: while a thread waits on the condition variable, other threads change only fields declared guarded_by (and heaps of slices/maps stored in them); captured variables and locals of the waiting handler are stable")
	for _, sv := range vc.eng.guardedSVs(vc, class) {
		vc.havocSV(st, sv)
	}
	vc.snapshotAtLock(st)
	// the monitor invariant of the function (if declared) holds again after the wait
	if vc.fc != nil {
		for _, inv := range vc.fc.WaitInv {
			t, err := vc.specBool(vc.topFrame, st, inv, nil)
			if err != nil {
				vc.unsupportedf("waitinv of %s: %v", vc.fc.Key, err)
				continue
			}
			vc.fact(st.pc, t)
		}
	}
}

// acquire: on taking a lock the guarded fields hold whatever other threads left there
// (interference happens while the lock is not held); the state at acquisition is remembered
// for atlock() in specifications.
func argVal(argVals []ssa.Value, i int) ssa.Value {
	if i < len(argVals) {
		return argVals[i]
	}
	return nil
}

func (vc *VC) acquire(fr *Frame, st *State, class string) {
	if vc.role() != "writer" && vc.role() != "init" {
		for _, sv := range vc.eng.guardedSVs(vc, class) {
			vc.havocSV(st, sv)
		}
	}
	if vc.primaryClass == "" {
		vc.primaryClass = class
	}
	if class != vc.primaryClass {
		return
	}
	vc.snapshotAtLock(st)
	if vc.fc != nil {
		for _, inv := range vc.fc.WaitInv {
			t, err := vc.specBool(vc.topFrame, st, inv, nil)
			if err != nil {
				vc.unsupportedf("waitinv of %s: %v", vc.fc.Key, err)
				continue
			}
			vc.fact(st.pc, t)
		}
	}
}

func (vc *VC) snapshotAtLock(st *State) {
	keys := make([]string, 0, len(vc.svSort))
	for k := range vc.svSort {
		if strings.HasPrefix(k, "L|") || strings.HasPrefix(k, "G_defer_") {
			continue
		}
		keys = append(keys, k)
	}
	for _, k := range keys {
		lk := "L|" + k
		if _, ok := vc.svSort[lk]; !ok {
			vc.svSort[lk] = vc.svSort[k]
			vc.svInit[lk] = vc.svInit[k]
		}
		st.vars[lk] = vc.get(st, k)
	}
}

// lockState reconstructs the state remembered at the most recent lock acquisition.
func (vc *VC) lockState(st *State) *State {
	out := &State{pc: st.pc, vars: map[string]string{}}
	for k, v := range st.vars {
		if strings.HasPrefix(k, "L|") {
			out.vars[k[2:]] = v
		}
	}
	return out
}

func (vc *VC) fieldOfAddr(addr ssa.Value) (types.Type, int, ssa.Value, bool) {
	fa, ok := addr.(*ssa.FieldAddr)
	if !ok {
		return nil, 0, nil, false
	}
	structT := fa.X.Type().Underlying().(*types.Pointer).Elem()
	return structT, fa.Field, fa.X, true
}

func (vc *VC) guardedAccess(fr *Frame, st *State, structT types.Type, field int, base string, x ssa.Value, pos token.Pos) {
}

func (vc *VC) role() string {
	if vc.fc != nil && vc.fc.Role != "" {
		return vc.fc.Role
	}
	return "reader"
}

func (vc *VC) checkGuard(fr *Frame, st *State, structT types.Type, field int, baseVal ssa.Value, write bool, pos token.Pos) {
	vc.checkGuardC(fr, st, structT, field, baseVal, write, false, pos)
}

func (vc *VC) checkGuardC(fr *Frame, st *State, structT types.Type, field int, baseVal ssa.Value, write bool, contents bool, pos token.Pos) {
	if vc.inSpec > 0 {
		return
	}
	g := vc.eng.guardOf(structT, field)
	if contents {
		g = vc.eng.contentsGuardOf(structT, field)
	}
	if g == nil {
		return
	}
	role := vc.role()
	if role == "init" {
		return
	}
	if !write && role == "writer" {
		return
	}
	// objects allocated in this activation and not yet published are exempt
	if _, isAlloc := baseVal.(*ssa.Alloc); isAlloc {
		return
	}
	base := vc.value(fr, st, baseVal)
	fname := structT.Underlying().(*types.Struct).Field(field).Name()
	vc.svDeclare("G_held", "(Array Int Int)")
	h := vc.get(st, "G_held")
	what := "read"
	if write {
		what = "write"
	}
	var cond string
	if strings.TrimSpace(g.Lock) == "*" {
		// the object does not know its lock: some mutex must be held by this thread
		vc.svDeclare("G_nheld", "Int")
		cond = fmt.Sprintf("(>= %s 1)", vc.get(st, "G_nheld"))
	} else {
		lockT, err := vc.guardLockTerm(fr, st, g, base, structT)
		if err != nil {
			vc.unsupportedf("guard of %s: %v", g.Struct, err)
			return
		}
		cond = fmt.Sprintf("(>= (select %s %s) 1)", h, lockT)
		if write {
			cond = fmt.Sprintf("(= (select %s %s) 1)", h, lockT)
		}
	}
	// freshly allocated (unpublished) objects are exempt: base >= allocation clock at entry
	cond = fmt.Sprintf("(or %s (>= %s %s))", cond, base, vc.allocBound(vc.entry))
	vc.oblige(st, "guarded", fmt.Sprintf("%s%s.%s.%s.%d", fnTagDot(fr), g.Struct, fname, what, vc.ordinal("guarded/"+fnTagDot(fr)+g.Struct+"."+fname+"."+what)),
		fmt.Sprintf("%s of %s.%s happens with %s held", what, g.Struct, fname, g.Lock), cond, pos)
}

func (vc *VC) guardLockTerm(fr *Frame, st *State, g *GuardDecl, base string, structT types.Type) (string, error) {
	nf := predFrame(fr)
	nf.specEnv = map[string]specVal{"self": {term: base, typ: types.NewPointer(structT)}}
	v, err := vc.specEval(nf, st, st, g.Lock, nil)
	if err != nil {
		return "", err
	}
	return v.term, nil
}

func (vc *VC) noteStore(fr *Frame, st *State, addr ssa.Value, loc *Loc, pos token.Pos) {
	structT, field, baseVal, ok := vc.fieldOfAddr(addr)
	if !ok {
		return
	}
	vc.checkGuard(fr, st, structT, field, baseVal, true, pos)
	if vc.eng.isWaited(structT, field) {
		vc.svDeclare("G_dirty", "Bool")
		st.vars["G_dirty"] = "true"
	}
}

func (vc *VC) noteLoad(fr *Frame, st *State, addr ssa.Value, loc *Loc, pos token.Pos) {
	structT, field, baseVal, ok := vc.fieldOfAddr(addr)
	if !ok {
		return
	}
	vc.checkGuard(fr, st, structT, field, baseVal, false, pos)
}

func (vc *VC) noteMapWrite(fr *Frame, st *State, m ssa.Value, pos token.Pos) {
	if u, ok := m.(*ssa.UnOp); ok && u.Op == token.MUL {
		if structT, field, baseVal, ok := vc.fieldOfAddr(u.X); ok {
			vc.checkGuardC(fr, st, structT, field, baseVal, true, true, pos)
			if vc.eng.isWaited(structT, field) {
				vc.svDeclare("G_dirty", "Bool")
				st.vars["G_dirty"] = "true"
			}
		}
	}
}

func (vc *VC) noteMapRead(fr *Frame, st *State, m ssa.Value, pos token.Pos) {
	if u, ok := m.(*ssa.UnOp); ok && u.Op == token.MUL {
		if structT, field, baseVal, ok := vc.fieldOfAddr(u.X); ok {
			vc.checkGuardC(fr, st, structT, field, baseVal, false, true, pos)
		}
	}
}

// waitPoint: a blocking operation (select, channel receive) of the function under verification; its contract's
// "atwait" clauses are asserted here (e.g. "the guard that made the function wait was true at the last lock acquisition").
func (vc *VC) waitPoint(fr *Frame, st *State, kind string) {
	if vc.inSpec > 0 || !fr.top || vc.fc == nil || len(vc.fc.AtWait) == 0 {
		return
	}
	n := vc.ordinal("atwait")
	for i, e := range vc.fc.AtWait {
		t, err := vc.specBoolAt(fr, st, vc.entryFor(fr), e, fr.curBlock)
		if err != nil {
			vc.unsupportedf("atwait of %s: %v", vc.fc.Key, err)
			continue
		}
		vc.oblige(st, "atwait", fmt.Sprintf("%s.%d.%d", kind, n, i+1), "before blocking ("+kind+"): "+e, t, token.NoPos)
	}
}

func hasSuffixAny(s string, suf ...string) bool {
	for _, x := range suf {
		if strings.HasSuffix(s, x) {
			return true
		}
	}
	return false
}
