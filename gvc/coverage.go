package main

// Completeness side condition of the guarded_by declarations (property C08): every function of the
// module that reads or writes a guarded field is either under contract itself (its accesses are then
// checked by "guarded" obligations) or is reached only by static calls from such functions (it is then
// inlined into their verification conditions). A function that touches guarded state and is neither is
// reported by name.

import (
	"fmt"
	"os"
	"go/types"
	"sort"
	"strings"

	"golang.org/x/tools/go/ssa"
	"golang.org/x/tools/go/ssa/ssautil"
)

func (e *Engine) guardCoverage() []OblResult {
	type access struct {
		field string
		write bool
	}
	accessors := map[*ssa.Function][]access{}
	callers := map[*ssa.Function]map[*ssa.Function]bool{} // callee -> static callers
	valueUse := map[*ssa.Function]bool{}                  // referenced other than as the callee of a static call
	all := ssautil.AllFunctions(e.prog)
	for fn := range all {
		if !e.inModule(fn) || fn.Synthetic != "" || len(fn.Blocks) == 0 {
			continue
		}
		if p := fn.Pos(); p.IsValid() && strings.HasSuffix(e.prog.Fset.Position(p).Filename, "_test.go") {
			continue
		}
		if strings.HasPrefix(fn.Name(), "verifLemma") {
			continue
		}
		for _, b := range fn.Blocks {
			for _, in := range b.Instrs {
				var st types.Type
				fi := -1
				switch x := in.(type) {
				case *ssa.FieldAddr:
					st = x.X.Type().Underlying().(*types.Pointer).Elem()
					fi = x.Field
				case *ssa.Field:
					st = x.X.Type()
					fi = x.Field
				}
				if fi >= 0 {
					if g := e.guardOf(st, fi); g != nil {
						name := g.Struct + "." + st.Underlying().(*types.Struct).Field(fi).Name()
						w := false
						if fa, ok := in.(*ssa.FieldAddr); ok {
							for _, r := range *fa.Referrers() {
								if s, ok := r.(*ssa.Store); ok && s.Addr == fa {
									w = true
								}
							}
						}
						accessors[fn] = append(accessors[fn], access{name, w})
					}
				}
				if _, isDbg := in.(*ssa.DebugRef); isDbg {
					continue
				}
				// call graph (static) and value uses
				var ops []*ssa.Value
				ops = in.Operands(ops)
				var staticCallee *ssa.Function
				if c, ok := in.(ssa.CallInstruction); ok {
					if sc := c.Common().StaticCallee(); sc != nil {
						staticCallee = sc
						if callers[sc] == nil {
							callers[sc] = map[*ssa.Function]bool{}
						}
						callers[sc][fn] = true
					}
				}
				for _, op := range ops {
					if op == nil || *op == nil {
						continue
					}
					f, ok := (*op).(*ssa.Function)
					if mc, ok2 := (*op).(*ssa.MakeClosure); ok2 {
						f, ok = mc.Fn.(*ssa.Function), true
						_ = f
					}
					if ok && f != nil && f != staticCallee {
						if os.Getenv("GVC_DEBUG_COV") != "" && strings.Contains(f.Name(), "FMP4") {
							fmt.Fprintf(os.Stderr, "VALUEUSE %s in %s: %s\n", f.Name(), fn.Name(), in.String())
						}
						valueUse[f] = true
					}
				}
				if mc, ok := in.(*ssa.MakeClosure); ok {
					// a closure that is only invoked directly in its parent counts as a static call
					direct := true
					for _, r := range *mc.Referrers() {
						c, isCall := r.(ssa.CallInstruction)
						if !isCall || c.Common().Value != ssa.Value(mc) {
							direct = false
						}
					}
					f := mc.Fn.(*ssa.Function)
					if direct && len(*mc.Referrers()) > 0 {
						if callers[f] == nil {
							callers[f] = map[*ssa.Function]bool{}
						}
						callers[f][fn] = true
					} else {
						valueUse[f] = true
					}
				}
			}
		}
	}
	covered := map[*ssa.Function]bool{}
	var isCovered func(f *ssa.Function, seen map[*ssa.Function]bool) bool
	isCovered = func(f *ssa.Function, seen map[*ssa.Function]bool) bool {
		if v, ok := covered[f]; ok {
			return v
		}
		if fc := e.contracts.lookupFn(f); fc != nil {
			covered[f] = true
			return true
		}
		if seen[f] {
			return true // cycle: decided by the other members
		}
		seen[f] = true
		if os.Getenv("GVC_DEBUG_COV") != "" {
			var cs []string
			for c := range callers[f] {
				cs = append(cs, shortFuncName(c))
			}
			fmt.Fprintf(os.Stderr, "COV %s valueUse=%v callers=%v\n", shortFuncName(f), valueUse[f], cs)
		}
		if valueUse[f] || len(callers[f]) == 0 {
			// exported API entry points and functions stored as values must be under contract themselves
			covered[f] = false
			return false
		}
		for c := range callers[f] {
			if !isCovered(c, seen) {
				covered[f] = false
				return false
			}
		}
		covered[f] = true
		return true
	}
	byField := map[string][]string{}
	okField := map[string]int{}
	for fn, accs := range accessors {
		cov := isCovered(fn, map[*ssa.Function]bool{})
		seen := map[string]bool{}
		for _, a := range accs {
			if seen[a.field] {
				continue
			}
			seen[a.field] = true
			if cov {
				okField[a.field]++
			} else {
				byField[a.field] = append(byField[a.field], shortFuncName(fn))
			}
			if _, ok := byField[a.field]; !ok {
				byField[a.field] = nil
			}
		}
	}
	var fields []string
	for f := range byField {
		fields = append(fields, f)
	}
	sort.Strings(fields)
	var out []OblResult
	for _, f := range fields {
		un := byField[f]
		sort.Strings(un)
		r := OblResult{Name: "guard-coverage#" + f, Kind: "guard-coverage", Func: "(module)", Props: []string{"C08"}, Solver: "callgraph",
			Desc: fmt.Sprintf("every function of the module that accesses the guarded field %s is under contract or reached only by static calls from functions under contract (%d accessors covered)", f, okField[f])}
		if len(un) == 0 {
			r.Verdict = "discharged"
		} else {
			r.Verdict = "failed-nomodel"
			r.Raw = "accessors outside every contract: " + strings.Join(un, ", ")
		}
		out = append(out, r)
	}
	return out
}

// fieldWriters lists, for every struct type that has a guarded_by declaration, the fields NOT declared guarded
// that are written (through a pointer that is not a fresh allocation of the same function) and by whom.
func (e *Engine) fieldWriters() map[string][]string {
	out := map[string][]string{}
	guardedStructs := map[string]bool{}
	for _, g := range e.contracts.Guards {
		if !g.Private {
			guardedStructs[g.Pkg+"."+g.Struct] = true
		}
	}
	for fn := range ssautil.AllFunctions(e.prog) {
		if !e.inModule(fn) || fn.Synthetic != "" || len(fn.Blocks) == 0 {
			continue
		}
		if p := fn.Pos(); p.IsValid() && strings.HasSuffix(e.prog.Fset.Position(p).Filename, "_test.go") {
			continue
		}
		for _, b := range fn.Blocks {
			for _, in := range b.Instrs {
				st, ok := in.(*ssa.Store)
				if !ok {
					continue
				}
				fa, ok := st.Addr.(*ssa.FieldAddr)
				if !ok {
					continue
				}
				if _, fresh := fa.X.(*ssa.Alloc); fresh {
					continue
				}
				t := fa.X.Type().Underlying().(*types.Pointer).Elem()
				n, ok := t.(*types.Named)
				if !ok || n.Obj().Pkg() == nil || !guardedStructs[n.Obj().Pkg().Path()+"."+n.Obj().Name()] {
					continue
				}
				if e.guardOf(t, fa.Field) != nil || e.privateField(t, fa.Field) {
					continue
				}
				// construction phase: functions whose contract says role init
				if fc := e.contracts.lookupFn(fn); fc != nil && fc.Role == "init" {
					continue
				}
				key := n.Obj().Name() + "." + t.Underlying().(*types.Struct).Field(fa.Field).Name()
				out[key] = append(out[key], shortFuncName(fn))
			}
		}
	}
	return out
}

// guardClassification: every field of a struct with guarded state that is written after the construction
// phase is declared guarded (or explicitly private): a new shared field cannot slip in unclassified.
func (e *Engine) guardClassification() []OblResult {
	fw := e.fieldWriters()
	var ks []string
	for k := range fw {
		ks = append(ks, k)
	}
	sort.Strings(ks)
	r := OblResult{Name: "guard-classification#(module)", Kind: "guard-coverage", Func: "(module)", Props: []string{"C08"}, Solver: "callgraph",
		Desc: "every field of a struct with guarded state that is written outside the construction phase (functions of role init, fresh objects) is declared guarded_by or private"}
	if len(ks) == 0 {
		r.Verdict = "discharged"
	} else {
		r.Verdict = "failed-nomodel"
		var parts []string
		for _, k := range ks {
			ws := fw[k]
			sort.Strings(ws)
			parts = append(parts, k+" written by "+strings.Join(ws, ", "))
		}
		r.Raw = "unclassified fields: " + strings.Join(parts, "; ")
	}
	return []OblResult{r}
}
