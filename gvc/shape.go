package main

// String shapes: for every string-typed term the executor also keeps a regular over-approximation
// of the set of strings it can denote (literals, typed holes, concatenation, alternatives, loops).
// "ensures result in /regex/" is then language inclusion (regex.go); "emits" clauses check which
// field feeds the hole that follows a literal (value flow).

import (
	"fmt"
	"go/token"
	"go/types"
	"strings"

	"golang.org/x/tools/go/ssa"
)

type Shape struct {
	K     string // lit | hole | cat | alt | star | ref | any
	S     string // literal text | hole kind
	Src   string // provenance of a hole (field path), "" if unknown
	A, B  *Shape
	Alts  []*Shape
	ID    int
	Emits [][2]string // K=="re": the contracted callee's emits clauses in the caller's terms
	Guard int         // alternatives created at the same control-flow join share a guard id (and order)
}

func shLit(s string) *Shape          { return &Shape{K: "lit", S: s} }
func shHole(kind, src string) *Shape { return &Shape{K: "hole", S: kind, Src: src} }
func shAny() *Shape                  { return &Shape{K: "any"} }
func flattenCat(s *Shape, out []*Shape) []*Shape {
	if s.K == "cat" {
		out = flattenCat(s.A, out)
		return flattenCat(s.B, out)
	}
	if s.K == "lit" && s.S == "" {
		return out
	}
	return append(out, s)
}

func mkSeq(el []*Shape) *Shape {
	if len(el) == 0 {
		return shLit("")
	}
	r := el[len(el)-1]
	for i := len(el) - 2; i >= 0; i-- {
		r = &Shape{K: "cat", A: el[i], B: r}
	}
	return r
}

// shCat concatenates; two alternatives created at the same control-flow join (same guard) that end up
// in one concatenation are correlated (e.g. "ret" and "sep" after the same if): the concatenation is
// then taken alternative by alternative instead of as a product.
func shCat(a, b *Shape) *Shape {
	el := flattenCat(b, flattenCat(a, nil))
	for i := 0; i < len(el); i++ {
		if el[i].K != "alt" || el[i].Guard == 0 {
			continue
		}
		for j := i + 1; j < len(el); j++ {
			if el[j].K == "alt" && el[j].Guard == el[i].Guard && len(el[j].Alts) == len(el[i].Alts) {
				xs := make([]*Shape, len(el[i].Alts))
				for k := range xs {
					seq := make([]*Shape, 0, len(el))
					seq = append(seq, el[:i]...)
					seq = append(seq, el[i].Alts[k])
					seq = append(seq, el[i+1:j]...)
					seq = append(seq, el[j].Alts[k])
					seq = append(seq, el[j+1:]...)
					xs[k] = shCat(mkSeq(seq), shLit(""))
				}
				return &Shape{K: "alt", Alts: xs, Guard: el[i].Guard}
			}
		}
	}
	return mkSeq(el)
}

func shAlt(xs ...*Shape) *Shape {
	if len(xs) == 1 {
		return xs[0]
	}
	return &Shape{K: "alt", Alts: xs}
}

func (vc *VC) shapeOf(term string) *Shape {
	if s, ok := vc.shapes[term]; ok {
		return s
	}
	return shAny()
}

func (vc *VC) setShape(term string, s *Shape) {
	if vc.shapes == nil {
		vc.shapes = map[string]*Shape{}
	}
	if _, ok := vc.shapes[term]; !ok || vc.shapes[term].K == "any" {
		vc.shapes[term] = s
	}
}

// hole languages by kind (regex source); field-string holes may be overridden per provenance.
var holeLang = map[string]string{
	"int":    `-?[0-9]+`,
	"uint":   `[0-9]+`,
	"float5": `-?[0-9]+\.[0-9]{5}`,
	"float3": `-?[0-9]+\.[0-9]{3}`,
	"time":   `[0-9]{4}-[0-9]{2}-[0-9]{2}T[0-9]{2}:[0-9]{2}:[0-9]{2}(\.[0-9]{1,3})?(Z|[+\-][0-9]{2}:[0-9]{2})`,
	"hex":    `[0-9a-f]*`,
	"str":    `[^\r\n]*`,
	"any":    `[\x00-\xff]*`,
}

func (vc *VC) shapeNFA(n *nfa, s *Shape, depth int) frag {
	if depth > 200 {
		return vc.regexFrag(n, holeLang["any"])
	}
	switch s.K {
	case "lit":
		return n.lit(s.S)
	case "hole":
		if s.Src != "" {
			hp := ""
			if vc.fc != nil {
				hp = vc.fc.Pkg + "|"
			}
			if re, ok := vc.eng.contracts.HoleLangs[hp+s.Src]; ok {
				return vc.regexFrag(n, re)
			}
			// by last path component (e.g. every field named URI)
			if i := strings.LastIndex(s.Src, "."); i >= 0 {
				if re, ok := vc.eng.contracts.HoleLangs[hp+"*"+s.Src[i:]]; ok {
					return vc.regexFrag(n, re)
				}
			}
		}
		re, ok := holeLang[s.S]
		if !ok {
			re = holeLang["any"]
		}
		return vc.regexFrag(n, re)
	case "re":
		return vc.regexFrag(n, s.S)
	case "cat":
		return n.cat(vc.shapeNFA(n, s.A, depth+1), vc.shapeNFA(n, s.B, depth+1))
	case "alt":
		fs := make([]frag, len(s.Alts))
		for i, a := range s.Alts {
			fs[i] = vc.shapeNFA(n, a, depth+1)
		}
		return n.alt(fs...)
	case "star":
		return n.star(vc.shapeNFA(n, s.A, depth+1))
	case "ref":
		if r, ok := vc.loopShapes[s.ID]; ok {
			return vc.shapeNFA(n, r, depth+1)
		}
		return vc.regexFrag(n, holeLang["any"])
	}
	return vc.regexFrag(n, holeLang["any"])
}

func (vc *VC) regexFrag(n *nfa, re string) frag {
	f, err := parseRegex(n, re, vc.eng.contracts.RegexDefs)
	if err != nil {
		vc.unsupportedf("bad regex %q: %v", re, err)
		return n.star(n.set(setOf().not()))
	}
	return f
}

func (s *Shape) String() string {
	switch s.K {
	case "lit":
		return fmt.Sprintf("%q", s.S)
	case "hole":
		if s.Src != "" {
			return "<" + s.S + ":" + s.Src + ">"
		}
		return "<" + s.S + ">"
	case "cat":
		return s.A.String() + " " + s.B.String()
	case "alt":
		parts := make([]string, len(s.Alts))
		for i, a := range s.Alts {
			parts[i] = a.String()
		}
		if s.Src != "" {
			return "(" + strings.Join(parts, " | ") + ":" + s.Src + ")"
		}
		return "(" + strings.Join(parts, " | ") + ")"
	case "star":
		return "(" + s.A.String() + ")*"
	case "ref":
		return fmt.Sprintf("@loop%d", s.ID)
	case "re":
		return "</" + truncStr(s.S, 40) + "/>"
	}
	return "<?>"
}

// resolved expands loop references (for printing and flow checks).
func (vc *VC) resolved(s *Shape, depth int) *Shape {
	if depth > 50 {
		return s
	}
	switch s.K {
	case "cat":
		return shCat(vc.resolved(s.A, depth+1), vc.resolved(s.B, depth+1))
	case "alt":
		xs := make([]*Shape, len(s.Alts))
		for i, a := range s.Alts {
			xs[i] = vc.resolved(a, depth+1)
		}
		if s.Src != "" {
			return &Shape{K: "alt", Alts: xs, Src: s.Src, Guard: s.Guard}
		}
		return shAlt(xs...)
	case "star":
		return &Shape{K: "star", A: vc.resolved(s.A, depth+1)}
	case "ref":
		if r, ok := vc.loopShapes[s.ID]; ok {
			return vc.resolved(r, depth+1)
		}
	}
	return s
}

// stripRef: B is Cat(ref, X) (in every alternative): returns X; ok=false if B does not start with ref.
func stripRef(b *Shape, id int) (*Shape, bool) {
	switch b.K {
	case "ref":
		if b.ID == id {
			return shLit(""), true
		}
	case "cat":
		x, ok := stripRef(b.A, id)
		if ok {
			return shCat(x, b.B), true
		}
	case "alt":
		xs := make([]*Shape, len(b.Alts))
		for i, a := range b.Alts {
			x, ok := stripRef(a, id)
			if !ok {
				return nil, false
			}
			xs[i] = x
		}
		return shAlt(xs...), true
	}
	return nil, false
}

// provenance describes where an SSA value comes from in terms of field paths of the receiver /
// parameters: "m.MediaSequence", "*m.DiscontinuitySequence", "t.PartHoldBack.Seconds()".
func provenance(v ssa.Value, depth int) string {
	if depth > 12 {
		return ""
	}
	switch x := v.(type) {
	case *ssa.Parameter:
		return x.Name()
	case *ssa.FieldAddr:
		st := x.X.Type().Underlying().(*types.Pointer).Elem().Underlying().(*types.Struct)
		return provenance(x.X, depth+1) + "." + st.Field(x.Field).Name()
	case *ssa.Field:
		st := x.X.Type().Underlying().(*types.Struct)
		return provenance(x.X, depth+1) + "." + st.Field(x.Field).Name()
	case *ssa.UnOp:
		if x.Op == token.MUL {
			if _, isField := x.X.(*ssa.FieldAddr); isField {
				return provenance(x.X, depth+1)
			}
			if _, isAlloc := x.X.(*ssa.Alloc); isAlloc {
				return provenance(x.X, depth+1)
			}
			return "*" + provenance(x.X, depth+1)
		}
	case *ssa.Alloc:
		// a local copy of a parameter (value receivers are spilled into an Alloc)
		for _, r := range *x.Referrers() {
			if st, ok := r.(*ssa.Store); ok && st.Addr == x {
				return provenance(st.Val, depth+1)
			}
		}
		return x.Comment
	case *ssa.Convert:
		return provenance(x.X, depth+1)
	case *ssa.ChangeType:
		return provenance(x.X, depth+1)
	case *ssa.TypeAssert:
		return provenance(x.X, depth+1)
	case *ssa.Slice:
		return provenance(x.X, depth+1) + "[:]"
	case *ssa.Call:
		if f := x.Call.StaticCallee(); f != nil && len(x.Call.Args) >= 1 {
			return provenance(x.Call.Args[0], depth+1) + "." + f.Name() + "()"
		}
	case *ssa.Extract:
		return provenance(x.Tuple, depth+1)
	case *ssa.IndexAddr:
		return provenance(x.X, depth+1) + "[]"
	case *ssa.Phi:
		return "phi:" + x.Comment
	}
	return ""
}

// ---------------------------------------------------------------- obligations on shapes

// shapeObligation checks L(shape of term) ⊆ L(regex).
func (vc *VC) shapeObligation(name, desc, term, re string, pos token.Pos) {
	sh := vc.resolved(vc.shapeOf(term), 0)
	a := newNFA()
	af := vc.shapeNFA(a, sh, 0)
	b := newNFA()
	bf, err := parseRegex(b, re, vc.eng.contracts.RegexDefs)
	o := &Obligation{Name: fmt.Sprintf("%s#shape:%s", vc.fc.Key, name), Kind: "shape", Func: vc.fc.Key, Where: vc.posString(pos),
		Desc: desc, Props: vc.props, PC: "true", Goal: "true", NLines: 0, Static: true}
	if err != nil {
		o.Verdict = "failed-nomodel"
		o.Raw = err.Error()
		vc.obls = append(vc.obls, o)
		return
	}
	ok, witness, ierr := included(a, af, b, bf, 200000)
	switch {
	case ierr != nil:
		o.Verdict = "failed-nomodel"
		o.Raw = ierr.Error()
	case ok:
		o.Verdict = "discharged"
	default:
		o.Verdict = "failed"
		o.Model = map[string]string{"witness_string": fmt.Sprintf("%q", witness)}
		o.Raw = "shape: " + truncStr(sh.String(), 3000) + "\nwitness (in the function's output language, not in the required language): " + fmt.Sprintf("%q", witness)
	}
	o.Solver = "regincl"
	vc.obls = append(vc.obls, o)
}

func truncStr(s string, n int) string {
	if len(s) > n {
		return s[:n] + "…"
	}
	return s
}

// emitsObligation: wherever literal lit occurs in the shape, the next hole comes from field src;
// and the literal does occur.
func (vc *VC) emitsObligation(name, term, lit, src string, pos token.Pos) {
	sh := vc.resolved(vc.shapeOf(term), 0)
	var seq [][]*Shape // all alternatives flattened to sequences is exponential; walk instead
	_ = seq
	found := false
	bad := ""
	var walk func(s *Shape, next func() *Shape) // next: the atom following s in its context
	var firstAtoms func(s *Shape) []*Shape
	firstAtoms = func(s *Shape) []*Shape {
		switch s.K {
		case "cat":
			fa := firstAtoms(s.A)
			if len(fa) == 0 {
				fa = append(fa, firstAtoms(s.B)...)
			}
			return fa
		case "alt":
			var out []*Shape
			for _, a := range s.Alts {
				out = append(out, firstAtoms(a)...)
			}
			return out
		case "star":
			return firstAtoms(s.A)
		case "lit":
			if s.S == "" {
				return nil
			}
			return []*Shape{s}
		}
		return []*Shape{s}
	}
	var visit func(s *Shape, follow []*Shape)
	visit = func(s *Shape, follow []*Shape) {
		switch s.K {
		case "cat":
			fb := firstAtoms(s.B)
			if len(fb) == 0 {
				fb = append(fb, follow...)
			}
			visit(s.A, fb)
			visit(s.B, follow)
		case "alt":
			for _, a := range s.Alts {
				visit(a, follow)
			}
		case "star":
			visit(s.A, append(firstAtoms(s.A), follow...))
		case "re":
			for _, em := range s.Emits {
				if strings.HasSuffix(lit, em[0]) {
					found = true
					if !provMatches(em[1], src) {
						bad = fmt.Sprintf("the callee writes %s after %q, expected a value of %s", em[1], em[0], src)
					}
				}
			}
		case "lit":
			if strings.HasSuffix(s.S, lit) {
				found = true
				for _, f := range follow {
					if f.K != "hole" || !provMatches(f.Src, src) {
						bad = fmt.Sprintf("after %q comes %s, expected a value of %s", lit, f.String(), src)
					}
				}
				if len(follow) == 0 {
					bad = fmt.Sprintf("nothing follows %q", lit)
				}
			} else if i := strings.Index(s.S, lit); i >= 0 {
				found = true
				bad = fmt.Sprintf("%q is followed by literal text %q, expected a value of %s", lit, s.S[i+len(lit):], src)
			}
		}
	}
	_ = walk
	visit(sh, nil)
	o := &Obligation{Name: fmt.Sprintf("%s#emits:%s", vc.fc.Key, name), Kind: "emits", Func: vc.fc.Key, Where: vc.posString(pos),
		Desc: fmt.Sprintf("the value written after %q is %s (and the tag can be written)", lit, src), Props: vc.props, PC: "true", Goal: "true", Static: true, Solver: "valueflow"}
	switch {
	case !found:
		o.Verdict = "failed"
		o.Raw = fmt.Sprintf("%q never occurs in the output shape %s", lit, truncStr(sh.String(), 2000))
	case bad != "":
		o.Verdict = "failed"
		o.Raw = bad
	default:
		o.Verdict = "discharged"
	}
	vc.obls = append(vc.obls, o)
}

func provMatches(got, want string) bool {
	if got == want {
		return true
	}
	// allow method suffixes on the produced side: "t.PartHoldBack.Seconds()" matches "t.PartHoldBack"
	g := strings.TrimPrefix(got, "*")
	w := strings.TrimPrefix(want, "*")
	return strings.HasPrefix(g, w+".") || g == w
}

func canBeEmpty(s *Shape) bool {
	switch s.K {
	case "lit":
		return s.S == ""
	case "cat":
		return canBeEmpty(s.A) && canBeEmpty(s.B)
	case "alt":
		for _, a := range s.Alts {
			if canBeEmpty(a) {
				return true
			}
		}
		return false
	case "star":
		return true
	case "hole":
		return s.S == "str" || s.S == "any" || s.S == "hex"
	}
	return true
}

// hasValueAtom: the shape contains something other than literal text.
func hasValueAtom(s *Shape) bool {
	switch s.K {
	case "lit":
		return false
	case "cat":
		return hasValueAtom(s.A) || hasValueAtom(s.B)
	case "alt":
		if s.Src != "" {
			return true
		}
		for _, a := range s.Alts {
			if hasValueAtom(a) {
				return true
			}
		}
		return false
	case "star":
		return hasValueAtom(s.A)
	}
	return true
}

// shapePaths enumerates the alternatives of a shape as sequences of atoms (literals, holes, value-selected
// literal choices); loops that only repeat literal text are dropped, other loops and unknown parts become
// an "any" atom. ok is false when there are too many alternatives.
func shapePaths(s *Shape, limit int) (paths [][]*Shape, ok bool) {
	switch s.K {
	case "lit":
		if s.S == "" {
			return [][]*Shape{{}}, true
		}
		return [][]*Shape{{s}}, true
	case "hole":
		return [][]*Shape{{s}}, true
	case "cat":
		pa, ok1 := shapePaths(s.A, limit)
		pb, ok2 := shapePaths(s.B, limit)
		if !ok1 || !ok2 || len(pa)*len(pb) > limit {
			return nil, false
		}
		for _, a := range pa {
			for _, b := range pb {
				paths = append(paths, append(append([]*Shape{}, a...), b...))
			}
		}
		return paths, true
	case "alt":
		if s.Src != "" {
			return [][]*Shape{{s}}, true
		}
		for _, a := range s.Alts {
			pa, ok1 := shapePaths(a, limit)
			if !ok1 {
				return nil, false
			}
			paths = append(paths, pa...)
			if len(paths) > limit {
				return nil, false
			}
		}
		return paths, true
	case "star":
		if !hasValueAtom(s.A) {
			return [][]*Shape{{}}, true
		}
	}
	return [][]*Shape{{shAny()}}, true
}

// emitsSeqObligation: on every alternative of the output that starts with the literal, the values written
// after it come, in this order, from the listed fields (a shorter alternative may stop early; at least one
// alternative writes all of them).
func (vc *VC) emitsSeqObligation(name, term, lit string, want []string, pos token.Pos) {
	sh := vc.resolved(vc.shapeOf(term), 0)
	o := &Obligation{Name: fmt.Sprintf("%s#emits:%s", vc.fc.Key, name), Kind: "emits", Func: vc.fc.Key, Where: vc.posString(pos),
		Desc: fmt.Sprintf("the values written after %q come, in order, from %s", lit, strings.Join(want, ", ")), Props: vc.props, PC: "true", Goal: "true", Static: true, Solver: "valueflow"}
	vc.obls = append(vc.obls, o)
	paths, ok := shapePaths(sh, 4096)
	if !ok {
		o.Verdict = "failed"
		o.Raw = "too many alternatives in the output shape " + truncStr(sh.String(), 1000)
		return
	}
	found, full := false, false
	for _, p := range paths {
		text := ""
		i := 0
		for i < len(p) && p[i].K == "lit" && len(text) < len(lit) {
			text += p[i].S
			i++
		}
		if !strings.HasPrefix(text, lit) {
			continue
		}
		found = true
		k := 0
		for _, a := range p[i:] {
			if a.K == "lit" {
				continue
			}
			src := a.Src
			if a.K != "hole" && !(a.K == "alt" && a.Src != "") {
				src = "?"
			}
			// optional entries ("x.f?") that this alternative does not write are skipped
			for k < len(want) && strings.HasSuffix(want[k], "?") && !provMatches(src, strings.TrimSuffix(want[k], "?")) {
				k++
			}
			if k >= len(want) {
				o.Verdict = "failed"
				o.Raw = fmt.Sprintf("an extra value %s is written after the %d listed ones on the alternative %s", a.String(), len(want), truncStr(mkSeq(p).String(), 600))
				return
			}
			if want[k] != "*" && !provMatches(src, strings.TrimSuffix(want[k], "?")) {
				o.Verdict = "failed"
				o.Raw = fmt.Sprintf("value %d after %q is %s (from %q), expected a value of %s; alternative %s", k+1, lit, a.String(), src, want[k], truncStr(mkSeq(p).String(), 600))
				return
			}
			k++
		}
		for k < len(want) && strings.HasSuffix(want[k], "?") {
			k++
		}
		if k == len(want) {
			full = true
		}
	}
	switch {
	case !found:
		o.Verdict = "failed"
		o.Raw = fmt.Sprintf("no alternative of the output starts with %q: %s", lit, truncStr(sh.String(), 1000))
	case !full:
		o.Verdict = "failed"
		o.Raw = fmt.Sprintf("no alternative starting with %q writes all %d listed values", lit, len(want))
	default:
		o.Verdict = "discharged"
	}
}

// hasProvAtom: some atom of the shape carries a provenance.
func hasProvAtom(s *Shape) bool {
	switch s.K {
	case "hole":
		return s.Src != ""
	case "cat":
		return hasProvAtom(s.A) || hasProvAtom(s.B)
	case "alt":
		if s.Src != "" {
			return true
		}
		for _, a := range s.Alts {
			if hasProvAtom(a) {
				return true
			}
		}
	case "star":
		return hasProvAtom(s.A)
	case "re":
		return len(s.Emits) > 0
	}
	return false
}

// hasValueOrChoice: the shape is not one fixed literal.
func hasValueOrChoice(s *Shape) bool {
	return s.K == "alt" || hasValueAtom(s)
}
