package main

import (
	"encoding/json"
	"flag"
	"fmt"
	"os"
	"path/filepath"
	"sort"
	"strings"
	"sync"
	"time"
)

func main() {
	repo := flag.String("repo", "/repo", "repository root")
	prop := flag.String("prop", "", "property id (e.g. C06); empty = all contracts")
	fnFilter := flag.String("func", "", "only contracts whose key contains this")
	tier := flag.String("tier", "quick", "quick|thorough")
	work := flag.String("work", "", "work directory for queries")
	out := flag.String("out", "", "write JSON results here")
	dump := flag.Bool("dump", false, "keep query files and print obligations")
	flag.Parse()

	cleanup := func() {}
	if *work == "" {
		d, _ := os.MkdirTemp("", "gvc")
		*work = d
		if !*dump {
			// also on the non-zero exits below (os.Exit skips deferred calls)
			cleanup = func() { os.RemoveAll(d) } //nolint:errcheck
		}
	}
	defer cleanup()
	os.MkdirAll(*work, 0o755) //nolint:errcheck
	eng, err := loadEngine(*repo)
	if err != nil {
		fmt.Fprintln(os.Stderr, "LOAD ERROR:", err)
		cleanup()
		os.Exit(3)
	}
	timeout := 30 * time.Second
	if *tier == "thorough" {
		timeout = 90 * time.Second
	}
	if os.Getenv("GVC_FIELD_WRITERS") != "" {
		fw := eng.fieldWriters()
		var ks []string
		for k := range fw {
			ks = append(ks, k)
		}
		sort.Strings(ks)
		for _, k := range ks {
			fmt.Println("WRITERS", k, fw[k])
		}
		return
	}
	run := runContracts(eng, *prop, *fnFilter, *work, timeout, *tier == "thorough")
	run.Tier = *tier
	run.LoadSecs = eng.loadSecs
	if *out != "" {
		b, _ := json.MarshalIndent(run, "", " ")
		os.WriteFile(*out, b, 0o644) //nolint:errcheck
	}
	printRun(run, *dump)
	if run.Undecided > 0 {
		cleanup()
		os.Exit(3)
	}
	if run.Failed > 0 {
		cleanup()
		os.Exit(1)
	}
}

type OblResult struct {
	Name    string            `json:"name"`
	Kind    string            `json:"kind"`
	Func    string            `json:"func"`
	Where   string            `json:"where"`
	Desc    string            `json:"desc"`
	Verdict string            `json:"verdict"` // discharged | failed | failed-nomodel | vacuous | covered
	Solver  string            `json:"solver"`
	Secs    float64           `json:"secs"`
	All     map[string]string `json:"all_solvers,omitempty"`
	Model   map[string]string `json:"model,omitempty"`
	Raw     string            `json:"raw,omitempty"`
	Props   []string          `json:"props"`
	Cover   bool              `json:"cover,omitempty"`
	Query   string            `json:"query_file,omitempty"`
	Bytes   int               `json:"query_bytes"`
}

type FuncResult struct {
	Key         string   `json:"key"`
	Pkg         string   `json:"pkg"`
	Props       []string `json:"props"`
	Trusted     string   `json:"trusted,omitempty"`
	Error       string   `json:"error,omitempty"`
	Unsupported []string `json:"unsupported,omitempty"`
	Assumptions []string `json:"assumptions,omitempty"`
	Obligations int      `json:"obligations"`
	GenSecs     float64  `json:"gen_secs"`
}

type Run struct {
	Tier      string       `json:"tier"`
	LoadSecs  float64      `json:"load_secs"`
	Funcs     []FuncResult `json:"funcs"`
	Obls      []OblResult  `json:"obligations"`
	Failed    int          `json:"failed"`
	Undecided int          `json:"undecided"`
	WallSecs  float64      `json:"wall_secs"`
}

func hasProp(props []string, p string) bool {
	if p == "" {
		return true
	}
	for _, x := range props {
		if x == p {
			return true
		}
	}
	return false
}

func runContracts(eng *Engine, prop, fnFilter, work string, timeout time.Duration, cross bool) *Run {
	t0 := time.Now()
	run := &Run{}
	var keys []string
	for k, fc := range eng.contracts.Funcs {
		if fnFilter != "" && !strings.Contains(k, fnFilter) {
			continue
		}
		sel := hasProp(fc.Props, prop) || prop == "C08" // C08: the lock discipline of every function under contract
		if !sel {
			for _, ps := range fc.ClausePropsEns {
				if hasProp(ps, prop) {
					sel = true
				}
			}
		}
		if sel {
			keys = append(keys, k)
		}
	}
	sort.Strings(keys)
	type job struct {
		vc *VC
		o  *Obligation
	}
	var jobs []job
	for _, k := range keys {
		fc := eng.contracts.Funcs[k]
		fr := FuncResult{Key: fc.Key, Pkg: fc.Pkg, Props: fc.Props, Trusted: fc.Trusted}
		if fc.Like != "" {
			fr.Trusted = "abstract contract of a func-typed field (like " + fc.Like + ")"
			run.Funcs = append(run.Funcs, fr)
			continue
		}
		if fc.Trusted != "" {
			if strings.HasPrefix(fc.Key, "ext:") {
				if eng.extByShort(strings.TrimPrefix(fc.Key, "ext:")) == nil {
					fr.Error = "assumed contract names a dependency function that does not exist"
					run.Undecided++
				}
			} else if _, ok := eng.fnByKey[k]; !ok && !strings.HasPrefix(fc.Trusted, "external") {
				fr.Error = "trusted contract target not found"
				run.Undecided++
			}
			run.Funcs = append(run.Funcs, fr)
			continue
		}
		g0 := time.Now()
		vc, err := func() (vc *VC, err error) {
			defer func() {
				if r := recover(); r != nil {
					if se, ok := r.(specErr); ok {
						err = fmt.Errorf("%s", string(se))
						return
					}
					err = fmt.Errorf("engine panic in %s: %v", fc.Key, r)
				}
			}()
			return eng.verifyFunction(fc)
		}()
		fr.GenSecs = time.Since(g0).Seconds()
		if err != nil {
			fr.Error = err.Error()
			run.Undecided++
			run.Funcs = append(run.Funcs, fr)
			continue
		}
		fr.Unsupported = vc.unsupported
		for a := range vc.assum {
			fr.Assumptions = append(fr.Assumptions, a)
		}
		sort.Strings(fr.Assumptions)
		n := 0
		for _, o := range vc.obls {
			if prop == "C08" {
				// only the obligations of the locking protocol (and the precondition's satisfiability)
				switch {
				case o.Kind == "guarded" || o.Kind == "lock" || o.Kind == "lock-atomic" || o.Kind == "lock-balance" || o.Kind == "monitor":
				case o.Cover && strings.HasSuffix(o.Name, "#cover:requires"):
				case !o.Cover && (o.Kind == "precondition" || o.Kind == "invariant-entry" || o.Kind == "invariant-preserved" || o.Kind == "ensures" || o.Kind == "atcall") && mentionsLocks(o.Desc):
					// clauses that carry the lock state across calls and loops (held/unheld/nolocks ...)
				default:
					continue
				}
			} else if prop != "" && !hasProp(o.Props, prop) && !o.Cover {
				continue
			}
			jobs = append(jobs, job{vc, o})
			n++
		}
		fr.Obligations = n
		run.Funcs = append(run.Funcs, fr)
	}
	// discharge in parallel
	results := make([]OblResult, len(jobs))
	var wg sync.WaitGroup
	sem := make(chan struct{}, 6)
	for i, j := range jobs {
		wg.Add(1)
		go func(i int, j job) {
			defer wg.Done()
			sem <- struct{}{}
			defer func() { <-sem }()
			if j.o.Static {
				results[i] = OblResult{Name: j.o.Name, Kind: j.o.Kind, Func: j.o.Func, Where: j.o.Where, Desc: j.o.Desc,
					Verdict: j.o.Verdict, Solver: j.o.Solver, Props: j.o.Props, Model: j.o.Model, Raw: j.o.Raw}
				return
			}
			q := j.vc.query(j.o)
			var vals []string
			names := map[string]string{}
			if !j.o.Cover {
				for n, t := range j.vc.witness {
					if isAtom(t) {
						vals = append(vals, t)
						names[t] = n
					}
				}
				sort.Strings(vals)
			}
			to := timeout
			if j.o.Cover {
				// vacuity probes: an inconsistent context is refuted quickly; a consistent one with
				// quantifiers is rarely shown satisfiable, so do not wait for that
				to = timeout / 5
				if to > 3*time.Second {
					to = 3 * time.Second
				}
			}
			r := solve(work, j.o.Name, q, vals, to, cross && !j.o.Cover)
			res := OblResult{Name: j.o.Name, Kind: j.o.Kind, Func: j.o.Func, Where: j.o.Where, Desc: j.o.Desc,
				Solver: r.solver, Secs: r.secs, All: r.all, Props: j.o.Props, Cover: j.o.Cover, Bytes: len(q),
				Query: filepath.Join(work, sanitize(j.o.Name)+".smt2")}
			switch {
			case j.o.Cover && r.verdict == "unsat":
				res.Verdict = "vacuous"
				if strings.Contains(j.o.Name, "#cover:return") || strings.Contains(j.o.Name, "#cover:after.") || strings.Contains(j.o.Name, ".backedge.from") || strings.Contains(j.o.Name, ".later-iteration.from") {
					res.Verdict = "unreachable" // dead under the precondition: reported, not a failure
				}
			case j.o.Cover:
				res.Verdict = "covered"
			case r.verdict == "unsat":
				res.Verdict = "discharged"
			case r.verdict == "sat":
				// prefer a small counterexample (replayable): retry with bounded witness values
				for _, bound := range []string{"16", "4096", "1048576"} {
					var b strings.Builder
					b.WriteString(q)
					n := 0
					for _, t := range vals {
						if j.vc.witnessSort[t] == "Int" {
							fmt.Fprintf(&b, "(assert (and (<= (- %s) %s) (<= %s %s)))\n", bound, t, t, bound)
							n++
						}
					}
					if n == 0 {
						break
					}
					r2 := solve(work, j.o.Name+".small"+bound, b.String(), vals, to, false)
					if r2.verdict == "sat" {
						r = r2
						break
					}
				}
				res.Verdict = "failed"
				res.Model = map[string]string{}
				for t, v := range r.model {
					if n, ok := names[t]; ok {
						res.Model[n] = v
					}
				}
				res.Raw = trunc(r.raw, 4000)
			default:
				res.Verdict = "failed-nomodel"
				res.Raw = trunc(r.raw, 4000)
			}
			results[i] = res
		}(i, j)
	}
	wg.Wait()
	// loops pinned to their first iteration: some back edge is reachable, but none from a head state that
	// differs from the entry state
	type loopProbe struct{ back, later bool }
	probes := map[string]*loopProbe{}
	loopOf := func(name string) (string, string) {
		for _, tag := range []string{".backedge.from", ".later-iteration.from"} {
			if i := strings.Index(name, tag); i >= 0 {
				return name[:i], tag
			}
		}
		return "", ""
	}
	for _, r := range results {
		if l, tag := loopOf(r.Name); l != "" {
			p := probes[l]
			if p == nil {
				p = &loopProbe{}
				probes[l] = p
			}
			if r.Verdict == "covered" {
				if tag == ".backedge.from" {
					p.back = true
				} else {
					p.later = true
				}
			}
		}
	}
	for i := range results {
		if l, tag := loopOf(results[i].Name); l != "" && tag == ".later-iteration.from" {
			if p := probes[l]; p != nil && p.back && !p.later && results[i].Verdict == "unreachable" {
				results[i].Verdict = "vacuous"
			}
		}
	}
	for _, r := range results {
		if r.Verdict == "failed" || r.Verdict == "failed-nomodel" || r.Verdict == "vacuous" {
			run.Failed++
		}
	}
	if (prop == "" || prop == "C08") && fnFilter == "" {
		for _, r := range append(eng.guardCoverage(), eng.guardClassification()...) {
			if r.Verdict != "discharged" {
				run.Failed++
			}
			results = append(results, r)
		}
	}
	run.Obls = results
	run.WallSecs = time.Since(t0).Seconds()
	return run
}

func trunc(s string, n int) string {
	if len(s) > n {
		return s[:n] + "…"
	}
	return s
}

func printRun(run *Run, verbose bool) {
	for _, f := range run.Funcs {
		status := "ok"
		if f.Error != "" {
			status = "UNDECIDED: " + f.Error
		}
		if f.Trusted != "" {
			status = "trusted: " + f.Trusted
		}
		fmt.Printf("FUNC %s obligations=%d gen=%.2fs %s\n", f.Key, f.Obligations, f.GenSecs, status)
		for _, u := range f.Unsupported {
			fmt.Printf("   unsupported: %s\n", u)
		}
	}
	for _, o := range run.Obls {
		if verbose || (o.Verdict != "discharged" && o.Verdict != "covered" && o.Verdict != "unreachable") {
			fmt.Printf("OBL %-15s %s [%s %.2fs %dB] %s\n", o.Verdict, o.Name, o.Solver, o.Secs, o.Bytes, o.Desc)
			if o.Kind == "shape" || o.Kind == "emits" {
				fmt.Printf("      %s\n", strings.ReplaceAll(trunc(o.Raw, 900), "\n", "\n      "))
			}
			if o.Verdict == "failed" {
				keys := make([]string, 0, len(o.Model))
				for k := range o.Model {
					keys = append(keys, k)
				}
				sort.Strings(keys)
				for _, k := range keys {
					fmt.Printf("      %s = %s\n", k, o.Model[k])
				}
			}
		}
	}
	n, d := 0, 0
	for _, o := range run.Obls {
		if !o.Cover {
			n++
			if o.Verdict == "discharged" {
				d++
			}
		}
	}
	fmt.Printf("SUMMARY obligations=%d discharged=%d failed=%d undecided=%d wall=%.1fs\n", n, d, run.Failed, run.Undecided, run.WallSecs)
}

// mentionsLocks: the clause talks about the ghost lock state.
func mentionsLocks(desc string) bool {
	for _, k := range []string{"held(", "nolocks()", "anylock()", "dirty()"} {
		if strings.Contains(desc, k) {
			return true
		}
	}
	return false
}
