package main

// Verification-condition core: definitions, facts, state, obligations.

import (
	"fmt"
	"go/token"
	"go/types"
	"sort"
	"strings"

	"golang.org/x/tools/go/ssa"
)

type Obligation struct {
	Name   string // stable name: <func>#<kind>:<ordinal/detail>
	Kind   string // ensures, requires-at-call, invariant-entry, invariant-preserved, bounds, nil, div, assert, lock, ...
	Func   string // function under contract
	Where  string // source position (informational)
	Desc   string
	PC     string
	Goal   string
	NLines int
	Props  []string
	// results
	Verdict    string
	Solver     string
	Secs       float64
	Raw        string
	All        map[string]string
	Model      map[string]string
	Values     []string          // terms to get-value on failure
	ValueNames map[string]string // term -> human name
	Cover      bool              // a cover query: expected SAT (reachability); unsat == vacuity
	Static     bool              // decided by a built-in procedure (regincl / valueflow), no SMT query
}

type State struct {
	pc   string
	vars map[string]string
}

func (s *State) clone() *State {
	n := &State{pc: s.pc, vars: make(map[string]string, len(s.vars))}
	for k, v := range s.vars {
		n.vars[k] = v
	}
	return n
}

type VC struct {
	loopEntryVals map[loopKey]map[*ssa.Phi]string
	callArgVals   []ssa.Value // SSA arguments of the contracted call being applied (for provenance)
	eng           *Engine
	root          *ssa.Function
	fc            *FuncContract
	lines         []string
	n             int
	obls          []*Obligation
	svSort        map[string]string
	svInit        map[string]string
	strlit        map[string]string
	assum         map[string]bool
	entry         *State
	ordinals      map[string]int
	props         []string
	unsupported   []string
	frames        int
	modCache      map[*ssa.Function]map[string]bool
	inlineStack   []*ssa.Function
	witness       map[string]string // human name -> term (entry-state values to report in models)
	declared      map[string]bool
	lockTerms     []string
	shapes        map[string]*Shape
	loopShapes    map[int]*Shape
	loopEntry     map[int]*Shape
	loopBacks     map[int][]*Shape
	loopRefOf     map[string]int
	strlitLine    map[string]int
	witnessSort   map[string]string
	iters         map[ssa.Value]*mapIter
	lastIter      *mapIter
	refAxDone     map[string]bool
	frameHidePkg  string
	svContent     map[string]svInfo
	autoLoops     map[loopKey]*LoopContract
	frameFr       *Frame
	framePos      token.Pos
	frameWhole    map[string]bool
	frameObjs     map[string][]string
	primaryClass  string
	defCache      map[string]string
	factCache     map[string]bool
	eventNames    map[string]bool
	eventArgTypes map[string]types.Type
	inSpec        int
	inQuant       int
	topFrame      *Frame
	decls         []string
}

func newVC(eng *Engine, fn *ssa.Function, fc *FuncContract) *VC {
	vc := newVC0(eng, fn, fc)
	vc.strLit("") // the empty string always has id -1 (see constZero)
	return vc
}

func newVC0(eng *Engine, fn *ssa.Function, fc *FuncContract) *VC {
	return &VC{
		eng: eng, root: fn, fc: fc,
		svSort: map[string]string{}, svInit: map[string]string{},
		strlit: map[string]string{}, assum: map[string]bool{},
		ordinals: map[string]int{}, modCache: map[*ssa.Function]map[string]bool{},
		witness: map[string]string{}, witnessSort: map[string]string{}, autoLoops: map[loopKey]*LoopContract{}, iters: map[ssa.Value]*mapIter{},
	}
}

func (vc *VC) emit(line string) { vc.lines = append(vc.lines, line) }

func isAtom(t string) bool {
	return !strings.ContainsAny(t, " (")
}

// def introduces a named definition for term (unless it is already atomic).
func (vc *VC) def(sortName, term, hint string) string {
	if isAtom(term) {
		return term
	}
	if vc.inQuant > 0 {
		return term // may mention a quantified variable: must stay inline
	}
	if vc.defCache == nil {
		vc.defCache = map[string]string{}
	}
	key := sortName + "|" + term
	if n, ok := vc.defCache[key]; ok {
		return n
	}
	defer func() { vc.defCache[key] = fmt.Sprintf("%s_%d", sanitizeID(hint), vc.n) }()
	vc.n++
	name := fmt.Sprintf("%s_%d", sanitizeID(hint), vc.n)
	vc.emit(fmt.Sprintf("(define-fun %s () %s %s)", name, sortName, term))
	return name
}

func (vc *VC) fresh(sortName, hint string) string {
	vc.n++
	name := fmt.Sprintf("%s_%d", sanitizeID(hint), vc.n)
	vc.emit(fmt.Sprintf("(declare-const %s %s)", name, sortName))
	return name
}

func (vc *VC) fact(pc, term string) {
	if term == "true" {
		return
	}
	if vc.inQuant > 0 {
		return // facts about terms under a quantifier cannot be asserted at top level
	}
	if vc.factCache == nil {
		vc.factCache = map[string]bool{}
	}
	if vc.factCache[pc+"|"+term] {
		return
	}
	vc.factCache[pc+"|"+term] = true
	if pc == "true" || pc == "" {
		vc.emit(fmt.Sprintf("(assert %s)", term))
	} else {
		vc.emit(fmt.Sprintf("(assert (=> %s %s))", pc, term))
	}
}

func sanitizeID(s string) string {
	var b strings.Builder
	for _, r := range s {
		if (r >= 'a' && r <= 'z') || (r >= 'A' && r <= 'Z') || (r >= '0' && r <= '9') || r == '_' {
			b.WriteRune(r)
		} else {
			b.WriteByte('_')
		}
	}
	if b.Len() == 0 {
		return "x"
	}
	out := b.String()
	if out[0] >= '0' && out[0] <= '9' {
		out = "n" + out
	}
	if len(out) > 60 {
		out = out[:60]
	}
	return out
}

// ---------------------------------------------------------------- state variables

func (vc *VC) svDeclare(name, sortName string) {
	if _, ok := vc.svSort[name]; ok {
		return
	}
	vc.svSort[name] = sortName
	init := vc.fresh(sortName, "init_"+name)
	vc.svInit[name] = init
}

// svDeclareT declares a heap state variable whose contents have Go type t (levels: 1 = Array Int T,
// 2 = Array Int (Array K T)) and assumes the allocation-closure axiom for its initial version.
func (vc *VC) svDeclareT(name, sortName string, t types.Type, levels int, keySort string) {
	if _, ok := vc.svSort[name]; ok {
		return
	}
	vc.svDeclare(name, sortName)
	if vc.svContent == nil {
		vc.svContent = map[string]svInfo{}
	}
	vc.svContent[name] = svInfo{t, levels, keySort}
	if _, ok := vc.svSort["G_alloc"]; ok {
		vc.refAxiom("true", name, vc.svInit[name], fmt.Sprintf("(* %d %s)", refK, vc.svInit["G_alloc"]))
	}
}

type svInfo struct {
	typ     types.Type
	levels  int
	keySort string
}

// refAxiom: every reference stored in (this version of) a heap array is below the allocation bound.
// Assumed for unconstrained versions (initial state, havoc); stores of well-typed values preserve it.
func (vc *VC) refAxiom(pc, sv, arr, bound string) {
	info, ok := vc.svContent[sv]
	if !ok || isScalarStruct(info.typ) {
		return
	}
	var sel string
	var binders string
	if info.levels == 2 {
		sel = fmt.Sprintf("(select (select %s a) i)", arr)
		binders = fmt.Sprintf("((a Int) (i %s))", info.keySort)
	} else {
		sel = fmt.Sprintf("(select %s a)", arr)
		binders = "((a Int))"
	}
	var body string
	switch u := info.typ.Underlying().(type) {
	case *types.Pointer, *types.Map, *types.Chan, *types.Signature:
		_ = u
		body = fmt.Sprintf("(and (>= %s 0) (< %s %s))", sel, sel, bound)
	case *types.Interface:
		body = fmt.Sprintf("(and (>= (if_type %s) 0) (>= (if_val %s) 0) (< (if_val %s) %s) (=> (= (if_type %s) 0) (= (if_val %s) 0)) (=> (> (if_type %s) 0) (> (if_val %s) 0)))", sel, sel, sel, bound, sel, sel, sel, sel)
	case *types.Slice:
		body = fmt.Sprintf("(and (>= (s_arr %s) 0) (< (s_arr %s) %s) (>= (s_len %s) 0) (<= (s_len %s) (s_cap %s)) (<= (s_cap %s) 9223372036854775807) (>= (s_off %s) 0))", sel, sel, bound, sel, sel, sel, sel, sel)
	default:
		return
	}
	// only allocated objects are constrained: the contents of unallocated memory are arbitrary
	body = fmt.Sprintf("(=> (and (<= 0 a) (< a %s)) %s)", bound, body)
	key := pc + "|" + arr + "|" + bound
	if vc.refAxDone == nil {
		vc.refAxDone = map[string]bool{}
	}
	if vc.refAxDone[key] {
		return
	}
	vc.refAxDone[key] = true
	if pc == "true" || pc == "" {
		vc.emit(fmt.Sprintf("(assert (forall %s (! %s :pattern (%s))))", binders, body, sel))
	} else {
		vc.emit(fmt.Sprintf("(assert (=> %s (forall %s (! %s :pattern (%s)))))", pc, binders, body, sel))
	}
}

// refAxiomsAfterCall: objects allocated by a callee are well-formed too.
func (vc *VC) refAxiomsAfterCall(st *State) {
	var keys []string
	for k := range vc.svContent {
		keys = append(keys, k)
	}
	sort.Strings(keys)
	b := vc.def("Int", vc.allocBound(st), "bound")
	for _, k := range keys {
		if strings.HasPrefix(k, "V_") {
			continue
		}
		vc.refAxiom(st.pc, k, vc.get(st, k), b)
	}
}

func (vc *VC) get(st *State, name string) string {
	if v, ok := st.vars[name]; ok {
		return v
	}
	if v, ok := vc.svInit[name]; ok {
		return v
	}
	panic("undeclared state var " + name)
}

func (vc *VC) set(st *State, name, term string) {
	st.vars[name] = vc.def(vc.svSort[name], term, "st_"+name)
}

// merge combines states arriving on mutually exclusive paths.
func (vc *VC) merge(states []*State) *State {
	if len(states) == 0 {
		return &State{pc: "false", vars: map[string]string{}}
	}
	if len(states) == 1 {
		return states[0].clone()
	}
	pcs := make([]string, len(states))
	for i, s := range states {
		pcs[i] = s.pc
	}
	out := &State{vars: map[string]string{}}
	out.pc = vc.def("Bool", "(or "+strings.Join(pcs, " ")+")", "pc")
	keys := map[string]bool{}
	for _, s := range states {
		for k := range s.vars {
			keys[k] = true
		}
	}
	ks := make([]string, 0, len(keys))
	for k := range keys {
		ks = append(ks, k)
	}
	sort.Strings(ks)
	for _, k := range ks {
		vals := make([]string, len(states))
		same := true
		for i, s := range states {
			vals[i] = vc.get(s, k)
			if vals[i] != vals[0] {
				same = false
			}
		}
		if same {
			out.vars[k] = vals[0]
			continue
		}
		out.vars[k] = vc.def(vc.svSort[k], iteChain(pcs, vals), "mg_"+k)
	}
	return out
}

func iteChain(pcs, vals []string) string {
	t := vals[len(vals)-1]
	for i := len(vals) - 2; i >= 0; i-- {
		if vals[i] == t {
			continue
		}
		t = fmt.Sprintf("(ite %s %s %s)", pcs[i], vals[i], t)
	}
	return t
}

// ---------------------------------------------------------------- obligations

func (vc *VC) ordinal(kind string) int {
	vc.ordinals[kind]++
	return vc.ordinals[kind]
}

func (vc *VC) posString(p token.Pos) string {
	if !p.IsValid() {
		return ""
	}
	pos := vc.eng.fset.Position(p)
	return fmt.Sprintf("%s:%d", shortPath(pos.Filename), pos.Line)
}

func shortPath(p string) string {
	return strings.TrimPrefix(p, "/repo/")
}

func (vc *VC) oblige(st *State, kind, detail, desc, goal string, pos token.Pos) *Obligation {
	if goal == "true" || vc.inSpec > 0 {
		return nil
	}
	o := &Obligation{
		Name:   fmt.Sprintf("%s#%s:%s", vc.fc.Key, kind, detail),
		Kind:   kind,
		Func:   vc.fc.Key,
		Where:  vc.posString(pos),
		Desc:   desc,
		PC:     st.pc,
		Goal:   goal,
		NLines: len(vc.lines),
		Props:  vc.props,
	}
	vc.obls = append(vc.obls, o)
	return o
}

func (vc *VC) cover(st *State, detail, desc string, pos token.Pos) {
	o := &Obligation{
		Name:   fmt.Sprintf("%s#cover:%s", vc.fc.Key, detail),
		Kind:   "cover",
		Func:   vc.fc.Key,
		Where:  vc.posString(pos),
		Desc:   desc,
		PC:     st.pc,
		Goal:   "false",
		NLines: len(vc.lines),
		Props:  vc.props,
		Cover:  true,
	}
	vc.obls = append(vc.obls, o)
}

func (vc *VC) query(o *Obligation) string {
	var b strings.Builder
	b.WriteString(prelude)
	b.WriteString(vc.eng.extraPrelude)
	for _, l := range vc.decls {
		b.WriteString(l)
		b.WriteByte('\n')
	}
	for _, l := range vc.lines[:o.NLines] {
		b.WriteString(l)
		b.WriteByte('\n')
	}
	// concrete prefix relation between the string literals of this VC
	body := b.String()
	if strings.Contains(body, "sprefix") {
		type lit struct{ s, n string }
		var lits []lit
		for s, n := range vc.strlit {
			if vc.strlitLine[n] < o.NLines {
				lits = append(lits, lit{s, n})
			}
		}
		sort.Slice(lits, func(i, j int) bool { return lits[i].n < lits[j].n })
		for _, a := range lits {
			for _, p := range lits {
				if strings.HasPrefix(a.s, p.s) {
					fmt.Fprintf(&b, "(assert (sprefix %s %s))\n", a.n, p.n)
				} else {
					fmt.Fprintf(&b, "(assert (not (sprefix %s %s)))\n", a.n, p.n)
				}
			}
		}
	}
	// concrete containment relation between the string literals of this VC
	if strings.Contains(body, "scontains") {
		type lit struct{ s, n string }
		var lits []lit
		for s, n := range vc.strlit {
			if vc.strlitLine[n] < o.NLines {
				lits = append(lits, lit{s, n})
			}
		}
		sort.Slice(lits, func(i, j int) bool { return lits[i].n < lits[j].n })
		for _, a := range lits {
			for _, p := range lits {
				if a.n == p.n {
					continue
				}
				if strings.Contains(a.s, p.s) {
					fmt.Fprintf(&b, "(assert (scontains %s %s))\n", a.n, p.n)
				} else {
					fmt.Fprintf(&b, "(assert (not (scontains %s %s)))\n", a.n, p.n)
				}
			}
		}
	}
	b.WriteString("(assert " + o.PC + ")\n")
	b.WriteString("(assert (not " + o.Goal + "))\n")
	return b.String()
}

func (vc *VC) assume(note string) { vc.assum[note] = true }

func (vc *VC) unsupportedf(format string, a ...interface{}) {
	vc.unsupported = append(vc.unsupported, fmt.Sprintf(format, a...))
}

// ---------------------------------------------------------------- sorts

func isTimeTime(t types.Type) bool {
	n, ok := t.(*types.Named)
	if !ok {
		return false
	}
	return n.Obj().Pkg() != nil && n.Obj().Pkg().Path() == "time" && n.Obj().Name() == "Time"
}

// scalarStruct: struct types modelled as one opaque scalar (Int).
func isScalarStruct(t types.Type) bool {
	return isTimeTime(t)
}

func (vc *VC) sortOf(t types.Type) string {
	if isScalarStruct(t) {
		return "Int"
	}
	switch u := t.Underlying().(type) {
	case *types.Basic:
		switch {
		case u.Info()&types.IsBoolean != 0:
			return "Bool"
		case u.Info()&types.IsInteger != 0:
			return "Int"
		case u.Info()&types.IsFloat != 0:
			return "Real"
		case u.Info()&types.IsString != 0:
			return "Int"
		case u.Kind() == types.UnsafePointer, u.Kind() == types.UntypedNil:
			return "Int"
		}
		return "Int"
	case *types.Slice:
		return "Slice"
	case *types.Interface:
		return "Iface"
	default:
		return "Int"
	}
}

func (vc *VC) zeroOf(t types.Type) string {
	switch vc.sortOf(t) {
	case "Bool":
		return "false"
	case "Real":
		return "0.0"
	case "Slice":
		return "nil_slice"
	case "Iface":
		return "nil_iface"
	}
	if b, ok := t.Underlying().(*types.Basic); ok && b.Info()&types.IsString != 0 {
		return vc.strLit("")
	}
	return "0"
}

func intRange(t types.Type) (lo, hi string, ok bool) {
	b, ok2 := t.Underlying().(*types.Basic)
	if !ok2 || b.Info()&types.IsInteger == 0 {
		return "", "", false
	}
	switch b.Kind() {
	case types.Int8:
		return "-128", "127", true
	case types.Int16:
		return "-32768", "32767", true
	case types.Int32:
		return "-2147483648", "2147483647", true
	case types.Int, types.Int64, types.UntypedInt, types.UntypedRune:
		return "-9223372036854775808", "9223372036854775807", true
	case types.Uint8:
		return "0", "255", true
	case types.Uint16:
		return "0", "65535", true
	case types.Uint32:
		return "0", "4294967295", true
	case types.Uint, types.Uint64, types.Uintptr:
		return "0", "18446744073709551615", true
	}
	return "", "", false
}

func intModulus(t types.Type) (mod string, signed bool, ok bool) {
	b, ok2 := t.Underlying().(*types.Basic)
	if !ok2 || b.Info()&types.IsInteger == 0 {
		return "", false, false
	}
	signed = b.Info()&types.IsUnsigned == 0
	switch b.Kind() {
	case types.Int8, types.Uint8:
		return "256", signed, true
	case types.Int16, types.Uint16:
		return "65536", signed, true
	case types.Int32, types.Uint32:
		return "4294967296", signed, true
	default:
		return "18446744073709551616", signed, true
	}
}

func smtInt(v string) string {
	if strings.HasPrefix(v, "-") {
		return "(- " + v[1:] + ")"
	}
	return v
}

// typeFacts adds the type invariant of a freshly introduced value (range of
// machine integers, non-negative lengths, allocation bound of pointers).
func (vc *VC) typeFacts(st *State, term string, t types.Type) {
	if isScalarStruct(t) {
		return
	}
	if lo, hi, ok := intRange(t); ok {
		vc.fact(st.pc, fmt.Sprintf("(and (<= %s %s) (<= %s %s))", smtInt(lo), term, term, smtInt(hi)))
		return
	}
	switch u := t.Underlying().(type) {
	case *types.Basic:
		if u.Info()&types.IsString != 0 {
			vc.fact(st.pc, fmt.Sprintf("(and (>= (slen %s) 0) (<= (slen %s) 9223372036854775807))", term, term))
		}
	case *types.Slice:
		vc.fact(st.pc, fmt.Sprintf("(and (>= (s_len %s) 0) (<= (s_len %s) (s_cap %s)) (<= (s_cap %s) 9223372036854775807) (>= (s_off %s) 0) (>= (s_arr %s) 0) (< (s_arr %s) %s) (=> (= (s_arr %s) 0) (= (s_cap %s) 0)))",
			term, term, term, term, term, term, term, vc.allocBound(st), term, term))
	case *types.Pointer, *types.Map, *types.Chan, *types.Signature:
		vc.fact(st.pc, fmt.Sprintf("(and (>= %s 0) (< %s %s))", term, term, vc.allocBound(st)))
	case *types.Struct:
		// struct values are references to value objects; 0 is the zero value
		vc.fact(st.pc, fmt.Sprintf("(and (>= %s 0) (< %s %s))", term, term, vc.allocBound(st)))
	case *types.Interface:
		vc.fact(st.pc, fmt.Sprintf("(and (>= (if_type %s) 0) (=> (= (if_type %s) 0) (= (if_val %s) 0)) (=> (> (if_type %s) 0) (and (> (if_val %s) 0) (< (if_val %s) %s))))",
			term, term, term, term, term, term, vc.allocBound(st)))
		vc.assume("interface payloads are modelled as references (boxed values), so a non-nil interface has a positive payload below the allocation clock")
	}
}

func (vc *VC) allocBound(st *State) string {
	vc.svDeclare("G_alloc", "Int")
	return fmt.Sprintf("(* %d %s)", refK, vc.get(st, "G_alloc"))
}

// alloc returns a fresh reference distinct from every existing one.
func (vc *VC) alloc(st *State, hint string) string {
	vc.svDeclare("G_alloc", "Int")
	cur := vc.get(st, "G_alloc")
	r := vc.def("Int", fmt.Sprintf("(* %d %s)", refK, cur), "new_"+hint)
	vc.set(st, "G_alloc", fmt.Sprintf("(+ %s 1)", cur))
	return r
}

func (vc *VC) strLit(s string) string {
	if n, ok := vc.strlit[s]; ok {
		return n
	}
	id := len(vc.strlit) + 1
	name := fmt.Sprintf("strlit_%d", id)
	vc.strlit[s] = name
	if vc.strlitLine == nil {
		vc.strlitLine = map[string]int{}
	}
	vc.strlitLine[name] = len(vc.lines)
	// string literals get fixed negative ids so that they are pairwise distinct
	// and distinct from every symbolic string that is constrained to be a literal.
	vc.emit(fmt.Sprintf("(define-fun %s () Int (- %d)) ; %q", name, id, s))
	vc.emit(fmt.Sprintf("(assert (= (slen %s) %d))", name, len(s)))
	if s == "" {
		// string ids stand for string contents: the empty string is the only one of length 0
		vc.emit(fmt.Sprintf("(assert (forall ((x Int)) (! (=> (= (slen x) 0) (= x %s)) :pattern ((slen x)))))", name))
	}
	vc.setShape(name, shLit(s))
	return name
}

func (vc *VC) typeID(t types.Type) int {
	return vc.eng.typeID(t)
}
