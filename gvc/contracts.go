package main

// Contract files: comment-only Go files (build tag verif) in /repo, lines starting with //@.

import (
	"fmt"
	"go/ast"
	"go/parser"
	"os"
	"path/filepath"
	"strconv"
	"strings"

	"golang.org/x/tools/go/ssa"
)

type LoopContract struct {
	Invariants []string
	Decreases  string
	measure0   string
}

type FuncContract struct {
	Pkg            string // package path
	Key            string // Recv.Method | Func | Recv.Method$1
	Props          []string
	Requires       []string
	Ensures        []string
	Modifies       []string
	ModifiesAll    bool
	Loops          map[int]*LoopContract
	Arith          string
	Theory         string // optional extra axioms (e.g. "strinj": cancellation of string concatenation, injectivity of decimal formatting)
	NoSafety       bool
	Role           string
	Entry          bool
	Trusted        string
	Witness        []string
	Lemma          bool
	File           string
	Line           int
	ExitLocks      []string // locks that must be released (not held) on every exit
	Replay         string
	Waits          []string // blocking points allowed
	NoInlineCheck  bool
	ClausePropsReq map[int][]string
	WaitInv        []string
	Emits          [][2]string         // (literal, field provenance)
	EmitsProps     [][]string          // optional property tags per emits clause
	Reachable      []string            // exits that must not be refuted as unreachable (vacuity guard)
	AssumeAfter    map[string][]string // callee short name -> input-domain assumptions taken right after each such call
	NoCallPre      bool                // callee preconditions are not checked inside this function (listed as an open hole)
	ObjInv         []string            // object invariant: assumed at entry / proved at exit of the body; hidden from callers in other packages
	AtCall         map[string][]string // callee short name -> assertions checked immediately before each such call
	NoFrame        bool
	Like           string // abstract contract of a func-typed field: parameter names/types taken from this function
	LocksChange    bool
	ClausePropsEns map[int][]string
	LocalEns       map[int]bool // postconditions that callers do not assume
	AtWait         []string     // assertions at every blocking point (select / channel receive) of the function
}

type PredDef struct {
	Pkg    string
	Name   string
	Params []paramDef
	Result string // "" for predicates (bool)
	Body   string
}

type paramDef struct {
	Name     string
	Type     ast.Expr
	TypeText string
}

type GuardDecl struct {
	Private bool // exemption list, not a guard
	Pkg       string
	Struct    string
	Lock      string // expression over "self"
	Fields    []string
	Props     []string
	Class     string
	LockField string // field of the struct that holds (or points to) the lock; "" for *
}

type CondDecl struct {
	Pkg   string
	Name  string
	Class string
	Waits []string // Struct.field
	Props []string
}

type Contracts struct {
	Funcs     map[string]*FuncContract // pkg + "." + key
	Preds     map[string]*PredDef      // pkg + "." + name
	Guards    []*GuardDecl
	Conds     []*CondDecl
	Files     []string
	byFn      map[*ssa.Function]*FuncContract
	External  map[string]*FuncContract // assumed contracts on dependencies, keyed by short function name
	UFuns     map[string]*PredDef      // ghost (uninterpreted) spec functions, defined by axioms
	Axioms    []*AxiomDef
	RegexDefs map[string]string // named regex fragments
	HoleLangs map[string]string // language of string-typed holes by provenance ("m.URI" or "*.URI")
}

type AxiomDef struct {
	Pkg  string
	Name string
	Body string
}

func (c *Contracts) lookupFn(f *ssa.Function) *FuncContract {
	if c == nil {
		return nil
	}
	if fc, ok := c.byFn[f]; ok {
		return fc
	}
	return nil
}

func loadContracts(root string) (*Contracts, error) {
	cs := &Contracts{Funcs: map[string]*FuncContract{}, Preds: map[string]*PredDef{}, byFn: map[*ssa.Function]*FuncContract{}, External: map[string]*FuncContract{}, UFuns: map[string]*PredDef{}, RegexDefs: map[string]string{}, HoleLangs: map[string]string{}}
	var files []string
	filepath.Walk(root, func(p string, info os.FileInfo, err error) error { //nolint:errcheck
		if err != nil {
			return nil
		}
		if info.IsDir() && (info.Name() == ".git" || info.Name() == "examples") {
			return filepath.SkipDir
		}
		if !info.IsDir() && strings.HasPrefix(info.Name(), "verif_") && strings.HasSuffix(info.Name(), ".go") {
			files = append(files, p)
		}
		return nil
	})
	for _, f := range files {
		if err := cs.parseFile(root, f); err != nil {
			return nil, err
		}
	}
	cs.Files = files
	return cs, nil
}

func pkgPathOf(root, file string) string {
	rel, _ := filepath.Rel(root, filepath.Dir(file))
	base := "github.com/bluenviron/gohlslib/v2"
	if rel == "." {
		return base
	}
	return base + "/" + filepath.ToSlash(rel)
}

var clauseKeywords = map[string]bool{
	"props": true, "requires": true, "ensures": true, "modifies": true, "loop": true, "arith": true, "theory": true, "atwait": true,
	"nosafety": true, "role": true, "entry": true, "trusted": true, "witness": true, "lemma": true,
	"exitlocks": true, "replay": true, "waitinv": true, "lockschange": true, "like": true, "noframe": true, "atcall": true, "invariant": true, "nocallpre": true, "assumeafter": true, "reachable": true, "emits": true,
}

func (cs *Contracts) parseFile(root, file string) error {
	data, err := os.ReadFile(file)
	if err != nil {
		return err
	}
	pkg := pkgPathOf(root, file)
	var cur *FuncContract
	var lastClause *string
	lines := strings.Split(string(data), "\n")
	for ln, raw := range lines {
		l := strings.TrimSpace(raw)
		if !strings.HasPrefix(l, "//@") {
			continue
		}
		l = strings.TrimSpace(l[3:])
		if l == "" || strings.HasPrefix(l, "#") {
			continue
		}
		word := l
		rest := ""
		if i := strings.IndexAny(l, " \t"); i >= 0 {
			word, rest = l[:i], strings.TrimSpace(l[i+1:])
		}
		switch word {
		case "func":
			cur = &FuncContract{Pkg: pkg, Key: rest, Loops: map[int]*LoopContract{}, File: file, Line: ln + 1,
				ClausePropsReq: map[int][]string{}, ClausePropsEns: map[int][]string{}}
			if _, dup := cs.Funcs[pkg+"."+rest]; dup {
				return fmt.Errorf("%s:%d: duplicate contract for %s", file, ln+1, rest)
			}
			cs.Funcs[pkg+"."+rest] = cur
			if strings.HasPrefix(rest, "ext:") {
				cs.External[strings.TrimPrefix(rest, "ext:")] = cur
				cur.Trusted = "external: assumed contract on a dependency (T3)"
			}
			lastClause = nil
			continue
		case "end":
			cur = nil
			lastClause = nil
			continue
		case "pred", "spec":
			pd, err := parsePred(pkg, word, rest)
			if err != nil {
				return fmt.Errorf("%s:%d: %v", file, ln+1, err)
			}
			cs.Preds[pkg+"."+pd.Name] = pd
			lastClause = &pd.Body
			cur = nil
			continue
		case "regex", "holelang":
			// regex NAME /.../   |   holelang <provenance> /.../
			i := strings.Index(rest, " /")
			if i < 0 || !strings.HasSuffix(rest, "/") {
				return fmt.Errorf("%s:%d: bad %s clause", file, ln+1, word)
			}
			name, re := strings.TrimSpace(rest[:i]), rest[i+2:len(rest)-1]
			if word == "regex" {
				cs.RegexDefs[name] = re
			} else {
				cs.HoleLangs[pkg+"|"+name] = re
			}
			cur = nil
			lastClause = nil
			continue
		case "ufun":
			pd, err := parsePred(pkg, "spec", rest+" := 0")
			if err != nil {
				return fmt.Errorf("%s:%d: %v", file, ln+1, err)
			}
			// result type text: after the closing paren
			pd.Result = strings.TrimSpace(rest[strings.LastIndex(rest, ")")+1:])
			cs.UFuns[pd.Name] = pd
			cur = nil
			lastClause = nil
			continue
		case "axiom":
			f := strings.SplitN(rest, " ", 2)
			if len(f) != 2 {
				return fmt.Errorf("%s:%d: bad axiom", file, ln+1)
			}
			ax := &AxiomDef{Pkg: pkg, Name: f[0], Body: f[1]}
			cs.Axioms = append(cs.Axioms, ax)
			cur = nil
			lastClause = &ax.Body
			continue
		case "struct":
			// struct T guarded_by <lock>: f1, f2
			g, err := parseGuard(pkg, rest)
			if err != nil {
				return fmt.Errorf("%s:%d: %v", file, ln+1, err)
			}
			cs.Guards = append(cs.Guards, g)
			cur = nil
			lastClause = nil
			continue
		case "cond":
			c, err := parseCond(pkg, rest)
			if err != nil {
				return fmt.Errorf("%s:%d: %v", file, ln+1, err)
			}
			cs.Conds = append(cs.Conds, c)
			cur = nil
			lastClause = nil
			continue
		}
		if cur == nil {
			if lastClause != nil {
				*lastClause += " " + l
				continue
			}
			return fmt.Errorf("%s:%d: clause outside a contract: %s", file, ln+1, l)
		}
		if !clauseKeywords[word] {
			if lastClause == nil {
				return fmt.Errorf("%s:%d: unknown clause %q", file, ln+1, word)
			}
			*lastClause += " " + l
			continue
		}
		lastClause = nil
		switch word {
		case "props":
			cur.Props = append(cur.Props, strings.Fields(rest)...)
		case "requires":
			cur.Requires = append(cur.Requires, rest)
			lastClause = &cur.Requires[len(cur.Requires)-1]
		case "ensures":
			// optional property tag: ensures [C06,C07] expr
			if strings.HasPrefix(rest, "[") {
				if j := strings.Index(rest, "]"); j > 0 {
					cur.ClausePropsEns[len(cur.Ensures)] = strings.Split(strings.ReplaceAll(rest[1:j], " ", ""), ",")
					rest = strings.TrimSpace(rest[j+1:])
				}
			}
			if strings.HasPrefix(rest, "local ") {
				// "ensures [Cxx] local <expr>": proved on the body, not assumed at call sites (keeps the callers' queries small)
				rest = strings.TrimSpace(rest[len("local "):])
				if cur.LocalEns == nil {
					cur.LocalEns = map[int]bool{}
				}
				cur.LocalEns[len(cur.Ensures)] = true
			}
			cur.Ensures = append(cur.Ensures, rest)
			lastClause = &cur.Ensures[len(cur.Ensures)-1]
		case "modifies":
			if rest == "*" {
				cur.ModifiesAll = true
			} else {
				for _, m := range splitTop(rest, ',') {
					cur.Modifies = append(cur.Modifies, strings.TrimSpace(m))
				}
			}
		case "loop":
			f := strings.Fields(rest)
			if len(f) < 3 {
				return fmt.Errorf("%s:%d: bad loop clause", file, ln+1)
			}
			n, err := strconv.Atoi(f[0])
			if err != nil {
				return fmt.Errorf("%s:%d: bad loop ordinal", file, ln+1)
			}
			lc := cur.Loops[n]
			if lc == nil {
				lc = &LoopContract{}
				cur.Loops[n] = lc
			}
			body := strings.TrimSpace(strings.TrimPrefix(strings.TrimSpace(strings.TrimPrefix(rest, f[0])), f[1]))
			switch f[1] {
			case "invariant":
				lc.Invariants = append(lc.Invariants, body)
				lastClause = &lc.Invariants[len(lc.Invariants)-1]
			case "decreases":
				lc.Decreases = body
				lastClause = &lc.Decreases
			default:
				return fmt.Errorf("%s:%d: bad loop clause kind %s", file, ln+1, f[1])
			}
		case "arith":
			cur.Arith = rest
		case "theory":
			cur.Theory = rest
		case "atwait":
			cur.AtWait = append(cur.AtWait, rest)
			lastClause = &cur.AtWait[len(cur.AtWait)-1]
		case "nosafety":
			cur.NoSafety = true
		case "role":
			cur.Role = rest
		case "entry":
			cur.Entry = true
		case "trusted":
			cur.Trusted = rest
			if cur.Trusted == "" {
				cur.Trusted = "trusted"
			}
		case "witness":
			cur.Witness = append(cur.Witness, rest)
		case "lemma":
			cur.Lemma = true
		case "exitlocks":
			cur.ExitLocks = append(cur.ExitLocks, rest)
		case "replay":
			cur.Replay = rest
		case "waitinv":
			cur.WaitInv = append(cur.WaitInv, rest)
			lastClause = &cur.WaitInv[len(cur.WaitInv)-1]
		case "lockschange":
			cur.LocksChange = true
		case "like":
			cur.Like = rest
		case "noframe":
			cur.NoFrame = true
		case "nocallpre":
			cur.NoCallPre = true
		case "emits":
			// emits [Cxx,Cyy] "literal" provenance
			var eprops []string
			if strings.HasPrefix(rest, "[") {
				if j := strings.Index(rest, "]"); j > 0 {
					eprops = strings.Split(strings.ReplaceAll(rest[1:j], " ", ""), ",")
					rest = strings.TrimSpace(rest[j+1:])
				}
			}
			q := strings.LastIndex(rest, "\"")
			if !strings.HasPrefix(rest, "\"") || q <= 0 {
				return fmt.Errorf("%s:%d: bad emits clause", file, ln+1)
			}
			lit, err := strconv.Unquote(rest[:q+1])
			if err != nil {
				return fmt.Errorf("%s:%d: bad emits literal: %v", file, ln+1, err)
			}
			cur.Emits = append(cur.Emits, [2]string{lit, strings.TrimSpace(rest[q+1:])})
			cur.EmitsProps = append(cur.EmitsProps, eprops)
		case "reachable":
			cur.Reachable = append(cur.Reachable, rest)
			lastClause = &cur.Reachable[len(cur.Reachable)-1]
		case "assumeafter":
			f := strings.SplitN(rest, " ", 2)
			if len(f) != 2 {
				return fmt.Errorf("%s:%d: bad assumeafter clause", file, ln+1)
			}
			if cur.AssumeAfter == nil {
				cur.AssumeAfter = map[string][]string{}
			}
			cur.AssumeAfter[f[0]] = append(cur.AssumeAfter[f[0]], strings.TrimSpace(f[1]))
			lst := cur.AssumeAfter[f[0]]
			lastClause = &lst[len(lst)-1]
		case "invariant":
			cur.ObjInv = append(cur.ObjInv, rest)
			lastClause = &cur.ObjInv[len(cur.ObjInv)-1]
		case "atcall":
			// atcall <callee> <expr>
			f := strings.SplitN(rest, " ", 2)
			if len(f) != 2 {
				return fmt.Errorf("%s:%d: bad atcall clause", file, ln+1)
			}
			if cur.AtCall == nil {
				cur.AtCall = map[string][]string{}
			}
			cur.AtCall[f[0]] = append(cur.AtCall[f[0]], strings.TrimSpace(f[1]))
			lst := cur.AtCall[f[0]]
			lastClause = &lst[len(lst)-1]
		}
	}
	return nil
}

func splitTop(s string, sep byte) []string {
	var out []string
	depth := 0
	start := 0
	for i := 0; i < len(s); i++ {
		switch s[i] {
		case '(', '[', '{':
			depth++
		case ')', ']', '}':
			depth--
		default:
			if s[i] == sep && depth == 0 {
				out = append(out, s[start:i])
				start = i + 1
			}
		}
	}
	out = append(out, s[start:])
	return out
}

func parsePred(pkg, kind, rest string) (*PredDef, error) {
	i := strings.Index(rest, ":=")
	if i < 0 {
		return nil, fmt.Errorf("pred/spec without :=")
	}
	head, body := strings.TrimSpace(rest[:i]), strings.TrimSpace(rest[i+2:])
	// head: name(params) [type]
	j := strings.Index(head, "(")
	if j < 0 {
		return nil, fmt.Errorf("pred/spec head without (")
	}
	name := strings.TrimSpace(head[:j])
	// parse as func type to get params
	src := "func" + head[j:]
	e, err := parser.ParseExpr(src)
	if err != nil {
		return nil, fmt.Errorf("bad head %q: %v", head, err)
	}
	ft, ok := e.(*ast.FuncType)
	if !ok {
		return nil, fmt.Errorf("bad head %q", head)
	}
	pd := &PredDef{Pkg: pkg, Name: name, Body: body}
	for _, f := range ft.Params.List {
		for _, n := range f.Names {
			pd.Params = append(pd.Params, paramDef{Name: n.Name, Type: f.Type})
		}
	}
	if ft.Results != nil && len(ft.Results.List) > 0 {
		pd.Result = "typed"
	}
	return pd, nil
}

func parseGuard(pkg, rest string) (*GuardDecl, error) {
	// T guarded_by <lock>: f1, f2 [props C08]
	f := strings.SplitN(rest, ":", 2)
	if len(f) != 2 {
		return nil, fmt.Errorf("bad struct clause")
	}
	hd := strings.Fields(f[0])
	if len(hd) == 2 && hd[1] == "private" {
		// struct T private: f1, f2 — written after construction but by design not guarded (single-writer
		// private state, or published by happens-before); listed so that every other field written after
		// construction must be declared guarded
		g := &GuardDecl{Pkg: pkg, Struct: hd[0], Class: "private", Lock: "private", Private: true}
		for _, x := range strings.Split(f[1], ",") {
			if x = strings.TrimSpace(x); x != "" {
				g.Fields = append(g.Fields, x)
			}
		}
		return g, nil
	}
	if len(hd) < 3 || hd[1] != "guarded_by" {
		return nil, fmt.Errorf("bad struct clause head")
	}
	g := &GuardDecl{Pkg: pkg, Struct: hd[0], Class: hd[0]}
	lockWords := hd[2:]
	for i, w := range lockWords {
		if w == "class" && i+1 < len(lockWords) {
			g.Class = lockWords[i+1]
			lockWords = lockWords[:i]
			break
		}
	}
	g.Lock = strings.Join(lockWords, " ")
	if lf := strings.TrimPrefix(strings.TrimPrefix(g.Lock, "&"), "self."); lf != g.Lock && !strings.Contains(lf, ".") {
		g.LockField = lf
	}
	for _, x := range strings.Split(f[1], ",") {
		x = strings.TrimSpace(x)
		if x != "" {
			g.Fields = append(g.Fields, x)
		}
	}
	return g, nil
}

func parseCond(pkg, rest string) (*CondDecl, error) {
	f := strings.SplitN(rest, ":", 2)
	if len(f) != 2 {
		return nil, fmt.Errorf("bad cond clause")
	}
	hd := strings.Fields(f[0])
	if len(hd) < 2 || hd[len(hd)-1] != "waits_on" {
		return nil, fmt.Errorf("bad cond clause head")
	}
	c := &CondDecl{Pkg: pkg, Name: hd[0]}
	for i, w := range hd {
		if w == "class" && i+1 < len(hd) {
			c.Class = hd[i+1]
		}
	}
	for _, x := range strings.Split(f[1], ",") {
		x = strings.TrimSpace(x)
		if x != "" {
			c.Waits = append(c.Waits, x)
		}
	}
	return c, nil
}

// desugar rewrites "A ==> B" into imp(A, B) and "A <==> B" into iff(A, B), at every nesting level.
func desugar(s string) string {
	// process parenthesised groups recursively
	var b strings.Builder
	i := 0
	for i < len(s) {
		c := s[i]
		if c == '(' || c == '[' {
			closeCh := byte(')')
			if c == '[' {
				closeCh = ']'
			}
			depth := 0
			j := i
			for ; j < len(s); j++ {
				if s[j] == '(' || s[j] == '[' {
					depth++
				} else if s[j] == ')' || s[j] == ']' {
					depth--
					if depth == 0 {
						break
					}
				}
			}
			if j >= len(s) {
				b.WriteString(s[i:])
				break
			}
			inner := s[i+1 : j]
			parts := splitTop(inner, ',')
			for k := range parts {
				parts[k] = desugar(parts[k])
			}
			b.WriteByte(c)
			b.WriteString(strings.Join(parts, ","))
			b.WriteByte(closeCh)
			i = j + 1
			continue
		}
		if c == '"' {
			j := i + 1
			for j < len(s) && s[j] != '"' {
				if s[j] == '\\' {
					j++
				}
				j++
			}
			if j >= len(s) {
				j = len(s) - 1
			}
			b.WriteString(s[i : j+1])
			i = j + 1
			continue
		}
		b.WriteByte(c)
		i++
	}
	t := b.String()
	// now split at top-level <==> then ==>
	if k := topIndex(t, "<==>"); k >= 0 {
		return "iff(" + desugarImp(t[:k]) + ", " + desugar(t[k+4:]) + ")"
	}
	return desugarImp(t)
}

func desugarImp(t string) string {
	if k := topIndex(t, "==>"); k >= 0 {
		return "imp(" + strings.TrimSpace(t[:k]) + ", " + desugarImp(t[k+3:]) + ")"
	}
	return strings.TrimSpace(t)
}

func topIndex(s, op string) int {
	depth := 0
	inStr := false
	for i := 0; i+len(op) <= len(s); i++ {
		c := s[i]
		if inStr {
			if c == '\\' {
				i++
			} else if c == '"' {
				inStr = false
			}
			continue
		}
		switch c {
		case '"':
			inStr = true
		case '(', '[':
			depth++
		case ')', ']':
			depth--
		}
		if depth == 0 && strings.HasPrefix(s[i:], op) {
			if op == "==>" && i > 0 && s[i-1] == '<' {
				continue
			}
			return i
		}
	}
	return -1
}
