package main

// Specification expressions: Go expression syntax + old(), forall(), ==>, is(), held(), ...
// evaluated into SMT terms over a symbolic state.

import (
	"fmt"
	"go/ast"
	"go/constant"
	"go/parser"
	"go/token"
	"go/types"
	"regexp"
	"strconv"
	"strings"

	"golang.org/x/tools/go/ssa"
)

type specVal struct {
	term   string
	typ    types.Type
	sort   string // overrides sortOf(typ) when typ is nil
	vspace bool   // a struct *value* (value object) rather than an addressable struct variable
}

type specCtx struct {
	vc       *VC
	fr       *Frame
	st       *State
	old      *State
	bound    map[string]specVal
	block    *ssa.BasicBlock
	pkg      *types.Package
	depth    int
	nowSt    *State
	nowBlock *ssa.BasicBlock
}

var (
	tInt  = types.Typ[types.Int]
	tBool = types.Typ[types.Bool]
	tReal = types.Typ[types.Float64]
	tStr  = types.Typ[types.String]
)

func (vc *VC) specBool(fr *Frame, st *State, expr string, block *ssa.BasicBlock) (string, error) {
	return vc.specBoolAt(fr, st, vc.entryFor(fr), expr, block)
}

func (vc *VC) entryFor(fr *Frame) *State {
	if vc.entry != nil {
		return vc.entry
	}
	return &State{pc: "true", vars: map[string]string{}}
}

func (vc *VC) specBoolAt(fr *Frame, st, old *State, expr string, block *ssa.BasicBlock) (string, error) {
	v, err := vc.specEval(fr, st, old, expr, block)
	if err != nil {
		return "", err
	}
	if vc.sortOfVal(v) != "Bool" {
		return "", fmt.Errorf("spec %q is not boolean", expr)
	}
	return vc.def("Bool", v.term, "spec"), nil
}

func (vc *VC) specTerm(fr *Frame, st *State, expr string, block *ssa.BasicBlock) (string, types.Type, error) {
	v, err := vc.specEval(fr, st, vc.entryFor(fr), expr, block)
	if err != nil {
		return "", nil, err
	}
	return v.term, v.typ, nil
}

func (vc *VC) sortOfVal(v specVal) string {
	if v.sort != "" {
		return v.sort
	}
	if v.typ == nil {
		return "Int"
	}
	return vc.sortOf(v.typ)
}

func (vc *VC) specEval(fr *Frame, st, old *State, expr string, block *ssa.BasicBlock) (v specVal, err error) {
	defer func() {
		if r := recover(); r != nil {
			if se, ok := r.(specErr); ok {
				err = fmt.Errorf("%s", string(se))
				return
			}
			panic(r)
		}
	}()
	src := desugar(expr)
	e, perr := parser.ParseExpr(src)
	if perr != nil {
		return specVal{}, fmt.Errorf("parse %q: %v", src, perr)
	}
	var pkg *types.Package
	if fr.fn.Pkg != nil {
		pkg = fr.fn.Pkg.Pkg
	} else if fr.fn.Parent() != nil && fr.fn.Parent().Pkg != nil {
		pkg = fr.fn.Parent().Pkg.Pkg
	}
	c := &specCtx{vc: vc, fr: fr, st: st, old: old, bound: map[string]specVal{}, block: block, pkg: pkg, nowSt: st, nowBlock: block}
	return c.eval(e), nil
}

type specErr string

func fail(format string, a ...interface{}) {
	panic(specErr(fmt.Sprintf(format, a...)))
}

func (c *specCtx) with(st *State) *specCtx {
	n := *c
	n.st = st
	return &n
}

func (c *specCtx) eval(e ast.Expr) specVal {
	vc := c.vc
	switch x := e.(type) {
	case *ast.ParenExpr:
		return c.eval(x.X)
	case *ast.BasicLit:
		switch x.Kind {
		case token.INT:
			v := constant.MakeFromLiteral(x.Value, token.INT, 0)
			return specVal{term: smtInt(v.ExactString()), typ: types.Typ[types.UntypedInt]}
		case token.FLOAT:
			v := constant.MakeFromLiteral(x.Value, token.FLOAT, 0)
			r := constant.ToFloat(v)
			num, den := constant.Num(r).ExactString(), constant.Denom(r).ExactString()
			if den == "1" {
				return specVal{term: smtReal(num), typ: tReal}
			}
			return specVal{term: fmt.Sprintf("(/ %s %s)", smtReal(num), smtReal(den)), typ: tReal}
		case token.STRING:
			s, _ := strconv.Unquote(x.Value)
			return specVal{term: vc.strLit(s), typ: tStr}
		}
		fail("literal %s", x.Value)
	case *ast.Ident:
		return c.ident(x.Name)
	case *ast.SelectorExpr:
		// package-qualified?
		if id, ok := x.X.(*ast.Ident); ok {
			if _, isBound := c.lookupName(id.Name); !isBound {
				if p := c.importedPkg(id.Name); p != nil {
					return c.pkgObject(p, x.Sel.Name)
				}
			}
		}
		base := c.eval(x.X)
		return c.closedFacts(c.selectField(base, x.Sel.Name))
	case *ast.StarExpr:
		base := c.eval(x.X)
		pt, ok := base.typ.Underlying().(*types.Pointer)
		if !ok {
			fail("deref of non-pointer")
		}
		loc := vc.locOfPointer(base.term, pt.Elem())
		if loc.kind == "sub" {
			return specVal{term: base.term, typ: pt.Elem()}
		}
		return specVal{term: vc.readLoc(c.st, loc), typ: pt.Elem()}
	case *ast.UnaryExpr:
		v := c.eval(x.X)
		switch x.Op {
		case token.NOT:
			return specVal{term: fmt.Sprintf("(not %s)", v.term), typ: tBool}
		case token.SUB:
			return specVal{term: fmt.Sprintf("(- %s)", v.term), typ: v.typ}
		case token.AND:
			// address-of: only for struct-typed fields (sub-object refs)
			return specVal{term: v.term, typ: types.NewPointer(v.typ)}
		}
		fail("unary %s", x.Op)
	case *ast.BinaryExpr:
		return c.binary(x)
	case *ast.IndexExpr:
		base := c.eval(x.X)
		idx := c.eval(x.Index)
		switch t := base.typ.Underlying().(type) {
		case *types.Slice:
			ev := vc.elemSV(t.Elem())
			return c.closedFacts(specVal{term: fmt.Sprintf("(select (select %s (s_arr %s)) (ix (s_off %s) %s))", vc.get(c.st, ev), base.term, base.term, idx.term), typ: t.Elem()})
		case *types.Map:
			_, val := vc.mapSV(t)
			return specVal{term: fmt.Sprintf("(select (select %s %s) %s)", vc.get(c.st, val), base.term, idx.term), typ: t.Elem()}
		case *types.Basic:
			return specVal{term: fmt.Sprintf("(sbyte %s %s)", base.term, idx.term), typ: types.Typ[types.Uint8]}
		}
		fail("index of %s", base.typ)
	case *ast.SliceExpr:
		base := c.eval(x.X)
		lo := "0"
		if x.Low != nil {
			lo = c.eval(x.Low).term
		}
		if isStringType(base.typ) {
			hi := fmt.Sprintf("(slen %s)", base.term)
			if x.High != nil {
				hi = c.eval(x.High).term
			}
			return specVal{term: fmt.Sprintf("(ssub %s %s %s)", base.term, lo, hi), typ: base.typ}
		}
		hi := fmt.Sprintf("(s_len %s)", base.term)
		if x.High != nil {
			hi = c.eval(x.High).term
		}
		return specVal{term: fmt.Sprintf("(mk_slice (s_arr %s) (+ (s_off %s) %s) (- %s %s) (- (s_cap %s) %s))", base.term, base.term, lo, hi, lo, base.term, lo), typ: base.typ}
	case *ast.TypeAssertExpr:
		base := c.eval(x.X)
		t := c.resolveType(x.Type)
		return specVal{term: vc.ifaceUnbox(c.st, base.term, t), typ: t}
	case *ast.CallExpr:
		return c.call(x)
	}
	fail("unsupported spec expression %T", e)
	return specVal{}
}

// closedFacts adds the type invariant of a heap read made by a specification, when the read term
// is closed (mentions no quantified variable).
func (c *specCtx) closedFacts(v specVal) specVal {
	if v.typ == nil || c.vc.inQuant > 0 {
		return v
	}
	switch v.typ.Underlying().(type) {
	case *types.Slice, *types.Interface:
		t := c.vc.def(c.vc.sortOfVal(v), v.term, "sr")
		c.vc.typeFacts(c.st, t, v.typ)
		v.term = t
	case *types.Basic:
		if _, _, ok := intRange(v.typ); ok || isStringType(v.typ) {
			t := c.vc.def(c.vc.sortOfVal(v), v.term, "sr")
			c.vc.typeFacts(c.st, t, v.typ)
			v.term = t
		}
	}
	return v
}

func (c *specCtx) lookupName(name string) (specVal, bool) {
	vc := c.vc
	if v, ok := c.bound[name]; ok {
		return v, true
	}
	if c.fr.specEnv != nil {
		if v, ok := c.fr.specEnv[name]; ok {
			return v, true
		}
	}
	fn := c.fr.fn
	// phi at the loop header in context
	if c.block != nil {
		for _, in := range c.block.Instrs {
			phi, ok := in.(*ssa.Phi)
			if !ok {
				break
			}
			if phi.Comment == name || (name == "ri" && phi.Comment == "rangeindex") {
				return specVal{term: vc.value(c.fr, c.st, phi), typ: phi.Type()}, true
			}
		}
	}
	if len(name) > 2 && strings.HasPrefix(name, "ri") {
		if n, err := strconv.Atoi(name[2:]); err == nil {
			for h, ord := range loopOrdinals(fn) {
				if ord != n {
					continue
				}
				for _, in := range h.Instrs {
					phi, ok := in.(*ssa.Phi)
					if !ok {
						break
					}
					if phi.Comment == "rangeindex" {
						if _, bound := c.fr.env[phi]; bound {
							return specVal{term: vc.value(c.fr, c.st, phi), typ: phi.Type()}, true
						}
					}
				}
			}
		}
	}
	// a parameter that is reassigned: inside the body its current value is the latest definition
	if c.block != nil {
		for _, p := range fn.Params {
			if p.Name() == name {
				if v, ok := c.localByName(name); ok {
					return v, true
				}
			}
		}
	}
	for _, p := range fn.Params {
		if p.Name() == name {
			// a struct-typed parameter is a struct value: its fields live in the value space
			return specVal{term: vc.value(c.fr, c.st, p), typ: p.Type(), vspace: isStructLike(p.Type())}, true
		}
	}
	for _, fv := range fn.FreeVars {
		if fv.Name() == name {
			// captured by reference: load through the pointer
			pt := fv.Type().Underlying().(*types.Pointer)
			loc := vc.locOf(c.fr, c.st, fv)
			if loc.kind == "sub" {
				return specVal{term: loc.subRef, typ: pt.Elem()}, true
			}
			return specVal{term: vc.readLoc(c.st, loc), typ: pt.Elem()}, true
		}
	}
	// locals
	if c.block != nil {
		if v, ok := c.localByName(name); ok {
			return v, true
		}
	}
	return specVal{}, false
}

func (c *specCtx) localByName(name string) (specVal, bool) {
	vc := c.vc
	fn := c.fr.fn
	// address-taken locals
	for _, l := range fn.Locals {
		if l.Comment == name {
			elem := l.Type().(*types.Pointer).Elem()
			if _, bound := c.fr.env[l]; !bound {
				continue
			}
			loc := vc.locOf(c.fr, c.st, l)
			if loc.kind == "sub" {
				return specVal{term: loc.subRef, typ: elem, vspace: loc.space == "V"}, true
			}
			return specVal{term: vc.readLoc(c.st, loc), typ: elem}, true
		}
	}
	// heap-allocated locals (escaping) appear as Alloc instructions with Heap=true
	for _, b := range fn.Blocks {
		if !(b == c.block || b.Dominates(c.block)) {
			continue
		}
		for _, in := range b.Instrs {
			if a, ok := in.(*ssa.Alloc); ok && a.Comment == name {
				if _, bound := c.fr.env[a]; bound {
					elem := a.Type().(*types.Pointer).Elem()
					loc := vc.locOf(c.fr, c.st, a)
					if loc.kind == "sub" {
						return specVal{term: loc.subRef, typ: elem, vspace: loc.space == "V"}, true
					}
					return specVal{term: vc.readLoc(c.st, loc), typ: elem}, true
				}
			}
		}
	}
	// register locals: the reaching definition is the closest one on the dominator chain, either an
	// assignment (DebugRef) or a phi carrying the variable's name
	var best ssa.Value
	for b := c.block; b != nil && best == nil; b = b.Idom() {
		for i := len(b.Instrs) - 1; i >= 0 && best == nil; i-- {
			switch d := b.Instrs[i].(type) {
			case *ssa.DebugRef:
				if d.IsAddr || (b == c.block && isLoopHeader(b)) {
					continue // values defined in a loop header itself are not stable names at the cut
				}
				if id, ok := d.Expr.(*ast.Ident); ok && id.Name == name {
					if _, bound := c.fr.env[d.X]; bound || isConstVal(d.X) {
						best = d.X
					}
				}
			case *ssa.Phi:
				if d.Comment == name {
					if _, bound := c.fr.env[d]; bound {
						best = d
					}
				}
			}
		}
	}
	if best != nil {
		return specVal{term: vc.value(c.fr, c.st, best), typ: best.Type()}, true
	}
	return specVal{}, false
}

func isConstVal(v ssa.Value) bool {
	_, ok := v.(*ssa.Const)
	return ok
}

func (c *specCtx) ident(name string) specVal {
	switch name {
	case "true":
		return specVal{term: "true", typ: tBool}
	case "false":
		return specVal{term: "false", typ: tBool}
	case "nil":
		return specVal{term: "0", typ: types.Typ[types.UntypedNil]}
	}
	if v, ok := c.lookupName(name); ok {
		return v
	}
	if c.pkg != nil {
		return c.pkgObject(c.pkg, name)
	}
	fail("unknown name %s", name)
	return specVal{}
}

func (c *specCtx) importedPkg(name string) *types.Package {
	if c.pkg == nil {
		return nil
	}
	for _, p := range c.pkg.Imports() {
		if p.Name() == name {
			return p
		}
	}
	// transitive (e.g. time from a package that does not import it directly)
	for _, p := range c.vc.eng.allTypesPkgs() {
		if p.Name() == name {
			return p
		}
	}
	return nil
}

func (c *specCtx) pkgObject(p *types.Package, name string) specVal {
	obj := p.Scope().Lookup(name)
	if obj == nil {
		fail("unknown name %s.%s", p.Name(), name)
	}
	switch o := obj.(type) {
	case *types.Const:
		switch o.Val().Kind() {
		case constant.Int:
			return specVal{term: smtInt(o.Val().ExactString()), typ: o.Type()}
		case constant.Bool:
			return specVal{term: fmt.Sprint(constant.BoolVal(o.Val())), typ: tBool}
		case constant.String:
			return specVal{term: c.vc.strLit(constant.StringVal(o.Val())), typ: o.Type()}
		case constant.Float:
			f, _ := constant.Float64Val(o.Val())
			return specVal{term: smtReal(strconv.FormatFloat(f, 'f', -1, 64)), typ: tReal}
		}
	case *types.Var:
		g := c.vc.eng.globalVar(o)
		if g != nil {
			loc := c.vc.locOf(c.fr, c.st, g)
			if loc.kind == "sub" {
				return specVal{term: loc.subRef, typ: o.Type()}
			}
			return specVal{term: c.vc.readLoc(c.st, loc), typ: o.Type()}
		}
	}
	fail("unsupported package object %s.%s", p.Name(), name)
	return specVal{}
}

func (c *specCtx) selectField(base specVal, name string) specVal {
	vc := c.vc
	if base.typ == nil {
		fail("selector .%s on untyped value", name)
	}
	obj, path, _ := types.LookupFieldOrMethod(base.typ, true, c.pkgFor(base.typ), name)
	if _, ok := obj.(*types.Var); !ok {
		fail("no field %s in %s", name, base.typ)
	}
	curT := base.typ
	cur := base.term
	space := "F"
	if isStructLike(curT) && base.vspace {
		space = "V" // selecting from a struct value (value object)
	}
	for k, idx := range path {
		if pt, ok := curT.Underlying().(*types.Pointer); ok {
			curT = pt.Elem()
			space = "F"
		}
		st, ok := curT.Underlying().(*types.Struct)
		if !ok {
			fail("selector path through non-struct %s", curT)
		}
		f := st.Field(idx)
		loc := vc.fieldLocSp(cur, curT, idx, space)
		if loc.kind == "sub" {
			cur = loc.subRef
		} else {
			cur = vc.readLoc(c.st, loc)
		}
		curT = f.Type()
		_ = k
	}
	return specVal{term: cur, typ: curT}
}

func (c *specCtx) pkgFor(t types.Type) *types.Package {
	if pt, ok := t.(*types.Pointer); ok {
		t = pt.Elem()
	}
	if n, ok := t.(*types.Named); ok && n.Obj().Pkg() != nil {
		return n.Obj().Pkg()
	}
	return c.pkg
}

func (c *specCtx) resolveType(e ast.Expr) types.Type {
	switch x := e.(type) {
	case *ast.StarExpr:
		return types.NewPointer(c.resolveType(x.X))
	case *ast.Ident:
		if t := types.Universe.Lookup(x.Name); t != nil {
			if tn, ok := t.(*types.TypeName); ok {
				return tn.Type()
			}
		}
		if c.pkg != nil {
			if o := c.pkg.Scope().Lookup(x.Name); o != nil {
				if tn, ok := o.(*types.TypeName); ok {
					return tn.Type()
				}
			}
		}
	case *ast.SelectorExpr:
		if id, ok := x.X.(*ast.Ident); ok {
			if p := c.importedPkg(id.Name); p != nil {
				if o := p.Scope().Lookup(x.Sel.Name); o != nil {
					if tn, ok := o.(*types.TypeName); ok {
						return tn.Type()
					}
				}
			}
		}
	case *ast.ArrayType:
		if x.Len == nil {
			return types.NewSlice(c.resolveType(x.Elt))
		}
	case *ast.ParenExpr:
		return c.resolveType(x.X)
	}
	fail("cannot resolve type %v", exprString(e))
	return nil
}

func exprString(e ast.Expr) string {
	return types.ExprString(e)
}

func (c *specCtx) isTypeExpr(e ast.Expr) (types.Type, bool) {
	defer func() { recover() }() //nolint:errcheck
	switch x := e.(type) {
	case *ast.Ident:
		if _, bound := c.lookupName(x.Name); bound {
			return nil, false
		}
		if t := types.Universe.Lookup(x.Name); t != nil {
			if tn, ok := t.(*types.TypeName); ok {
				return tn.Type(), true
			}
			return nil, false
		}
		if c.pkg != nil {
			if o := c.pkg.Scope().Lookup(x.Name); o != nil {
				if tn, ok := o.(*types.TypeName); ok {
					return tn.Type(), true
				}
			}
		}
	case *ast.SelectorExpr:
		if id, ok := x.X.(*ast.Ident); ok {
			if p := c.importedPkg(id.Name); p != nil {
				if o := p.Scope().Lookup(x.Sel.Name); o != nil {
					if tn, ok := o.(*types.TypeName); ok {
						return tn.Type(), true
					}
				}
			}
		}
	}
	return nil, false
}

func (c *specCtx) binary(x *ast.BinaryExpr) specVal {
	vc := c.vc
	a := c.eval(x.X)
	b := c.eval(x.Y)
	sa, sb := vc.sortOfVal(a), vc.sortOfVal(b)
	// nil comparisons
	fixNil := func(v *specVal, other specVal, os string) {
		if bt, ok := v.typ.(*types.Basic); ok && bt.Kind() == types.UntypedNil {
			switch os {
			case "Slice":
				v.term, v.sort = "nil_slice", "Slice"
			case "Iface":
				v.term, v.sort = "nil_iface", "Iface"
			}
		}
	}
	fixNil(&a, b, sb)
	fixNil(&b, a, sa)
	sa, sb = vc.sortOfVal(a), vc.sortOfVal(b)
	// comparing an interface with a concrete pointer: box the pointer (Go's implicit conversion)
	if sa == "Iface" && sb == "Int" && b.typ != nil && isPtrType(b.typ) {
		b = specVal{term: fmt.Sprintf("(ite (= %s 0) (mk_iface %d 0) (mk_iface %d %s))", b.term, vc.typeID(b.typ), vc.typeID(b.typ), b.term), sort: "Iface", typ: a.typ}
		sb = "Iface"
	} else if sb == "Iface" && sa == "Int" && a.typ != nil && isPtrType(a.typ) {
		a = specVal{term: fmt.Sprintf("(ite (= %s 0) (mk_iface %d 0) (mk_iface %d %s))", a.term, vc.typeID(a.typ), vc.typeID(a.typ), a.term), sort: "Iface", typ: b.typ}
		sa = "Iface"
	}
	mixReal := sa == "Real" || sb == "Real"
	if mixReal {
		if sa == "Int" {
			a.term = fmt.Sprintf("(to_real %s)", a.term)
		}
		if sb == "Int" {
			b.term = fmt.Sprintf("(to_real %s)", b.term)
		}
	}
	rt := a.typ
	if bt, ok := rt.(*types.Basic); ok && bt.Info()&types.IsUntyped != 0 {
		rt = b.typ
	}
	if mixReal {
		rt = tReal
	}
	switch x.Op {
	case token.LAND:
		return specVal{term: fmt.Sprintf("(and %s %s)", a.term, b.term), typ: tBool}
	case token.LOR:
		return specVal{term: fmt.Sprintf("(or %s %s)", a.term, b.term), typ: tBool}
	case token.EQL, token.NEQ:
		var eq string
		if sa == "Slice" && (a.term == "nil_slice" || b.term == "nil_slice") {
			o := a
			if a.term == "nil_slice" {
				o = b
			}
			eq = fmt.Sprintf("(= (s_arr %s) 0)", o.term)
		} else if sa == "Iface" && (a.term == "nil_iface" || b.term == "nil_iface") {
			o := a
			if a.term == "nil_iface" {
				o = b
			}
			eq = fmt.Sprintf("(= (if_type %s) 0)", o.term)
		} else {
			// a recorded bool (call argument / result) compared with 0 or 1: keep the term well sorted for every solver
			if sa == "Bool" && sb == "Int" {
				a.term = fmt.Sprintf("(ite %s 1 0)", a.term)
			} else if sa == "Int" && sb == "Bool" {
				b.term = fmt.Sprintf("(ite %s 1 0)", b.term)
			}
			eq = fmt.Sprintf("(= %s %s)", a.term, b.term)
		}
		if x.Op == token.NEQ {
			eq = "(not " + eq + ")"
		}
		return specVal{term: eq, typ: tBool}
	case token.LSS, token.LEQ, token.GTR, token.GEQ:
		return specVal{term: fmt.Sprintf("(%s %s %s)", x.Op.String(), a.term, b.term), typ: tBool}
	case token.ADD:
		if isStringType(rt) {
			return specVal{term: fmt.Sprintf("(scat %s %s)", a.term, b.term), typ: rt}
		}
		return specVal{term: fmt.Sprintf("(+ %s %s)", a.term, b.term), typ: rt}
	case token.SUB:
		return specVal{term: fmt.Sprintf("(- %s %s)", a.term, b.term), typ: rt}
	case token.MUL:
		return specVal{term: fmt.Sprintf("(* %s %s)", a.term, b.term), typ: rt}
	case token.QUO:
		if mixReal {
			return specVal{term: fmt.Sprintf("(/ %s %s)", a.term, b.term), typ: tReal}
		}
		return specVal{term: fmt.Sprintf("(tdiv %s %s)", a.term, b.term), typ: rt}
	case token.REM:
		return specVal{term: fmt.Sprintf("(tmod %s %s)", a.term, b.term), typ: rt}
	}
	fail("binary operator %s", x.Op)
	return specVal{}
}

func (c *specCtx) call(x *ast.CallExpr) specVal {
	vc := c.vc
	// conversion?
	if len(x.Args) == 1 {
		if t, ok := c.isTypeExpr(x.Fun); ok {
			v := c.eval(x.Args[0])
			return c.convert(v, t)
		}
	}
	name := ""
	switch f := x.Fun.(type) {
	case *ast.Ident:
		name = f.Name
	case *ast.SelectorExpr:
		// method call on a value or pkg.func
		return c.methodOrPkgCall(f, x.Args)
	}
	args := x.Args
	switch name {
	case "old":
		n := c.with(c.old)
		n.block = nil // entry values: parameters, not loop phis
		if c.block != nil {
			n.block = nil
		}
		return n.eval(args[0])
	case "now":
		n := c.with(c.nowSt)
		n.block = c.nowBlock
		return n.eval(args[0])
	case "atlock":
		n := c.with(vc.lockState(c.st))
		n.block = nil
		return n.eval(args[0])
	case "imp":
		a, b := c.eval(args[0]), c.eval(args[1])
		return specVal{term: fmt.Sprintf("(=> %s %s)", a.term, b.term), typ: tBool}
	case "iff":
		a, b := c.eval(args[0]), c.eval(args[1])
		return specVal{term: fmt.Sprintf("(= %s %s)", a.term, b.term), typ: tBool}
	case "ite":
		cc, a, b := c.eval(args[0]), c.eval(args[1]), c.eval(args[2])
		return specVal{term: fmt.Sprintf("(ite %s %s %s)", cc.term, a.term, b.term), typ: a.typ}
	case "forall_as", "exists_as":
		// forall_as(x, T, body): one bound variable of Go type T
		id, ok := args[0].(*ast.Ident)
		if !ok {
			fail("%s: bound variable expected", name)
		}
		bt := c.resolveType(args[1])
		n := *c
		n.bound = map[string]specVal{}
		for k, v := range c.bound {
			n.bound[k] = v
		}
		vc.n++
		bn := fmt.Sprintf("q_%s_%d", id.Name, vc.n)
		n.bound[id.Name] = specVal{term: bn, typ: bt}
		vc.inQuant++
		body := func() specVal {
			defer func() { vc.inQuant-- }()
			return n.eval(args[2])
		}()
		return specVal{term: fmt.Sprintf("(%s ((%s %s)) %s)", strings.TrimSuffix(name, "_as"), bn, vc.sortOf(bt), body.term), typ: tBool}
	case "forall", "exists":
		n := *c
		n.bound = map[string]specVal{}
		for k, v := range c.bound {
			n.bound[k] = v
		}
		var decls []string
		for _, a := range args[:len(args)-1] {
			id, ok := a.(*ast.Ident)
			if !ok {
				fail("%s: bound variable expected", name)
			}
			vc.n++
			bn := fmt.Sprintf("q_%s_%d", id.Name, vc.n)
			n.bound[id.Name] = specVal{term: bn, typ: tInt}
			decls = append(decls, fmt.Sprintf("(%s Int)", bn))
		}
		vc.inQuant++
		body := func() specVal {
			defer func() { vc.inQuant-- }()
			return n.eval(args[len(args)-1])
		}()
		return specVal{term: fmt.Sprintf("(%s (%s) %s)", name, strings.Join(decls, " "), body.term), typ: tBool}
	case "len":
		v := c.eval(args[0])
		switch v.typ.Underlying().(type) {
		case *types.Slice:
			return specVal{term: fmt.Sprintf("(s_len %s)", v.term), typ: tInt}
		case *types.Basic:
			return specVal{term: fmt.Sprintf("(slen %s)", v.term), typ: tInt}
		case *types.Map:
			return specVal{term: vc.mapCard(c.st, v.typ.Underlying().(*types.Map), v.term), typ: tInt}
		}
		fail("len of %s", v.typ)
	case "cap":
		v := c.eval(args[0])
		if _, ok := v.typ.Underlying().(*types.Chan); ok {
			return specVal{term: fmt.Sprintf("(chancap %s)", v.term), typ: tInt}
		}
		return specVal{term: fmt.Sprintf("(s_cap %s)", v.term), typ: tInt}
	case "held":
		v := c.eval(args[0])
		vc.svDeclare("G_held", "(Array Int Int)")
		vc.svDeclare("G_nheld", "Int")
		return specVal{term: fmt.Sprintf("(and (= (select %s %s) 1) (>= %s 1))", vc.get(c.st, "G_held"), v.term, vc.get(c.st, "G_nheld")), typ: tBool}
	case "rheld":
		v := c.eval(args[0])
		vc.svDeclare("G_held", "(Array Int Int)")
		return specVal{term: fmt.Sprintf("(>= (select %s %s) 1)", vc.get(c.st, "G_held"), v.term), typ: tBool}
	case "unheld":
		v := c.eval(args[0])
		vc.svDeclare("G_held", "(Array Int Int)")
		return specVal{term: fmt.Sprintf("(= (select %s %s) 0)", vc.get(c.st, "G_held"), v.term), typ: tBool}
	case "nolocks":
		vc.svDeclare("G_nheld", "Int")
		vc.svDeclare("G_held", "(Array Int Int)")
		return specVal{term: fmt.Sprintf("(and (= %s 0) (= %s ((as const (Array Int Int)) 0)))", vc.get(c.st, "G_nheld"), vc.get(c.st, "G_held")), typ: tBool}
	case "dirty":
		vc.svDeclare("G_dirty", "Bool")
		return specVal{term: vc.get(c.st, "G_dirty"), typ: tBool}
	case "allocated":
		v := c.eval(args[0])
		t := v.term
		if vc.sortOfVal(v) == "Iface" {
			t = fmt.Sprintf("(if_val %s)", t)
		} else if vc.sortOfVal(v) == "Slice" {
			t = fmt.Sprintf("(s_arr %s)", t)
		}
		return specVal{term: fmt.Sprintf("(< %s %s)", t, vc.allocBound(c.st)), typ: tBool}
	case "fresh":
		v := c.eval(args[0])
		t := v.term
		if vc.sortOfVal(v) == "Iface" {
			t = fmt.Sprintf("(if_val %s)", t)
		} else if vc.sortOfVal(v) == "Slice" {
			t = fmt.Sprintf("(s_arr %s)", t)
		}
		return specVal{term: fmt.Sprintf("(>= %s %s)", t, vc.allocBound(c.old)), typ: tBool}
	case "is":
		v := c.eval(args[0])
		t := c.resolveType(args[1])
		return specVal{term: fmt.Sprintf("(= (if_type %s) %d)", v.term, vc.typeID(t)), typ: tBool}
	case "as":
		v := c.eval(args[0])
		return specVal{term: v.term, typ: c.resolveType(args[1])}
	case "ref":
		v := c.eval(args[0])
		if vc.sortOfVal(v) == "Iface" {
			return specVal{term: fmt.Sprintf("(if_val %s)", v.term), typ: tInt}
		}
		if vc.sortOfVal(v) == "Slice" {
			return specVal{term: fmt.Sprintf("(s_arr %s)", v.term), typ: tInt}
		}
		return specVal{term: v.term, typ: tInt}
	case "off":
		v := c.eval(args[0])
		return specVal{term: fmt.Sprintf("(s_off %s)", v.term), typ: tInt}
	case "div":
		a, b := c.eval(args[0]), c.eval(args[1])
		return specVal{term: fmt.Sprintf("(div %s %s)", a.term, b.term), typ: tInt}
	case "mod":
		a, b := c.eval(args[0]), c.eval(args[1])
		return specVal{term: fmt.Sprintf("(mod %s %s)", a.term, b.term), typ: tInt}
	case "min", "max":
		a, b := c.eval(args[0]), c.eval(args[1])
		return specVal{term: fmt.Sprintf("(i%s %s %s)", name, a.term, b.term), typ: a.typ}
	case "real":
		a := c.eval(args[0])
		if vc.sortOfVal(a) == "Real" {
			return a
		}
		return specVal{term: fmt.Sprintf("(to_real %s)", a.term), typ: tReal}
	case "round", "ceil", "floor", "trunc":
		a := c.eval(args[0])
		t := a.term
		if vc.sortOfVal(a) != "Real" {
			t = fmt.Sprintf("(to_real %s)", t)
		}
		return specVal{term: fmt.Sprintf("(r%s %s)", name, t), typ: tInt}
	case "parseuint":
		// the value strconv.ParseUint(s, base, bits) returns (an uninterpreted function of its arguments)
		if len(args) != 3 {
			fail("parseuint(s, base, bits) expects three arguments")
		}
		a, b, d := c.eval(args[0]), c.eval(args[1]), c.eval(args[2])
		vc.declareOnceRaw("parseuint_val", "(declare-fun parseuint_val (Int Int Int) Int)")
		return specVal{term: fmt.Sprintf("(parseuint_val %s %s %s)", a.term, b.term, d.term), typ: tInt}
	case "parsefloat":
		if len(args) != 2 {
			fail("parsefloat(s, bits) expects two arguments")
		}
		a, b := c.eval(args[0]), c.eval(args[1])
		vc.declareOnceRaw("parsefloat_val", "(declare-fun parsefloat_val (Int Int) Real)")
		return specVal{term: fmt.Sprintf("(parsefloat_val %s %s)", a.term, b.term), typ: tReal}
	case "strlen":
		a := c.eval(args[0])
		return specVal{term: fmt.Sprintf("(slen %s)", a.term), typ: tInt}
	case "hasprefix":
		a, b := c.eval(args[0]), c.eval(args[1])
		return specVal{term: fmt.Sprintf("(sprefix %s %s)", a.term, b.term), typ: tBool}
	case "rdoff", "rdlen":
		// the window of the underlying file that a bounded reader hands out: io.LimitedReader over a
		// positioned *os.File, or io.SectionReader
		v := c.eval(args[0])
		pt, ok := v.typ.Underlying().(*types.Pointer)
		if !ok {
			fail("%s: not a pointer to a reader", name)
		}
		switch typeKey(pt.Elem()) {
		case "io.LimitedReader":
			st := pt.Elem().Underlying().(*types.Struct)
			if name == "rdlen" {
				for i := 0; i < st.NumFields(); i++ {
					if st.Field(i).Name() == "N" {
						sv, _ := vc.fieldSV(pt.Elem(), i)
						return specVal{term: fmt.Sprintf("(select %s %s)", vc.get(c.st, sv), v.term), typ: tInt}
					}
				}
			}
			for i := 0; i < st.NumFields(); i++ {
				if st.Field(i).Name() == "R" {
					sv, _ := vc.fieldSV(pt.Elem(), i)
					vc.svDeclare("G_filepos", "(Array Int Int)")
					return specVal{term: fmt.Sprintf("(select %s (if_val (select %s %s)))", vc.get(c.st, "G_filepos"), vc.get(c.st, sv), v.term), typ: tInt}
				}
			}
		case "io.SectionReader":
			vc.declareOnceRaw("sr_off", "(declare-fun sr_off (Int) Int)")
			vc.declareOnceRaw("sr_len", "(declare-fun sr_len (Int) Int)")
			f := "sr_off"
			if name == "rdlen" {
				f = "sr_len"
			}
			return specVal{term: fmt.Sprintf("(%s %s)", f, v.term), typ: tInt}
		}
		fail("%s: unsupported reader type %s", name, typeKey(pt.Elem()))
	case "contains":
		a, b := c.eval(args[0]), c.eval(args[1])
		return specVal{term: fmt.Sprintf("(scontains %s %s)", a.term, b.term), typ: tBool}
	case "calls":
		lit, ok := args[0].(*ast.BasicLit)
		if !ok {
			fail("calls(\"name\") expects a string literal")
		}
		s, _ := strconv.Unquote(lit.Value)
		sv := vc.eventCounter(s)
		return specVal{term: fmt.Sprintf("(- %s %s)", vc.get(c.st, sv), vc.get(c.old, sv)), typ: tInt}
	case "callsum":
		// callsum("name", i): sum of the i-th (integer) argument over all calls since entry
		lit := args[0].(*ast.BasicLit)
		s, _ := strconv.Unquote(lit.Value)
		i, _ := strconv.Atoi(args[1].(*ast.BasicLit).Value)
		sv := fmt.Sprintf("G_sum_%s_%d", sanitizeID(s), i)
		vc.svDeclare(sv, "Int")
		return specVal{term: fmt.Sprintf("(- %s %s)", vc.get(c.st, sv), vc.get(c.old, sv)), typ: tInt}
	case "callarg":
		// callarg("name", k, i): i-th argument of the k-th call (0-based, counted from entry)
		lit := args[0].(*ast.BasicLit)
		s, _ := strconv.Unquote(lit.Value)
		k := c.eval(args[1])
		i, _ := strconv.Atoi(args[2].(*ast.BasicLit).Value)
		sv := vc.eventCounter(s)
		av, typ := vc.eventArg(s, i)
		return specVal{term: fmt.Sprintf("(select %s (+ %s %s))", vc.get(c.st, av), vc.get(c.old, sv), k.term), typ: typ}
	case "callres":
		// callres("name", k): first result of the k-th call (0-based, counted from entry)
		lit := args[0].(*ast.BasicLit)
		s, _ := strconv.Unquote(lit.Value)
		k := c.eval(args[1])
		sv := vc.eventCounter(s)
		av, typ := vc.eventArg(s, resultSlot)
		return specVal{term: fmt.Sprintf("(select %s (+ %s %s))", vc.get(c.st, av), vc.get(c.old, sv), k.term), typ: typ}
	case "has":
		m := c.eval(args[0])
		k := c.eval(args[1])
		mt, ok := m.typ.Underlying().(*types.Map)
		if !ok {
			fail("has: not a map")
		}
		dom, _ := vc.mapSV(mt)
		return specVal{term: fmt.Sprintf("(and (not (= %s 0)) (select (select %s %s) %s))", m.term, vc.get(c.st, dom), m.term, k.term), typ: tBool}
	case "iterpos":
		if vc.lastIter == nil {
			fail("iterpos(): no map iteration in scope")
		}
		return specVal{term: vc.get(c.st, vc.lastIter.pos), typ: tInt}
	case "iterlen":
		if vc.lastIter == nil {
			fail("iterlen(): no map iteration in scope")
		}
		return specVal{term: vc.lastIter.n, typ: tInt}
	case "iterkey":
		if vc.lastIter == nil {
			fail("iterkey(): no map iteration in scope")
		}
		j := c.eval(args[0])
		return specVal{term: fmt.Sprintf("(%s %s)", vc.lastIter.keyFn, j.term), typ: vc.lastIter.keyType}
	case "bytesof":
		// contents of a seekablebuffer.Buffer at the current mutation epoch (same model as Buffer.Bytes())
		b := c.eval(args[0])
		// a seekablebuffer.Buffer embeds the bytes.Buffer whose Bytes() is promoted
		if pt, ok := b.typ.Underlying().(*types.Pointer); ok {
			if st, ok := pt.Elem().Underlying().(*types.Struct); ok {
				for i := 0; i < st.NumFields(); i++ {
					if st.Field(i).Embedded() && st.Field(i).Name() == "Buffer" && isStructLike(st.Field(i).Type()) {
						b.term = fmt.Sprintf("(+ %s %d)", b.term, subOffset(pt.Elem(), i))
					}
				}
			}
		}
		vc.svDeclare("G_bufepoch", "Int")
		vc.declareOnceRaw("buf_bytes", "(declare-fun buf_bytes (Int Int) Slice)")
		return specVal{term: fmt.Sprintf("(buf_bytes %s %s)", b.term, vc.get(c.st, "G_bufepoch")), typ: types.NewSlice(types.Typ[types.Uint8])}
	case "anylock":
		vc.svDeclare("G_nheld", "Int")
		return specVal{term: fmt.Sprintf("(>= %s 1)", vc.get(c.st, "G_nheld")), typ: tBool}
	case "condlock":
		a := c.eval(args[0])
		return specVal{term: fmt.Sprintf("(cond_lock %s)", a.term), typ: tInt}
	}
	// ghost uninterpreted functions
	if uf, ok := vc.eng.contracts.UFuns[name]; ok {
		var sorts, terms []string
		for i, a := range args {
			v := c.eval(a)
			srt := vc.sortOfVal(v)
			if i < len(uf.Params) {
				if t := c.tryResolveType(uf.Params[i].Type); t != nil {
					srt = vc.sortOf(t)
				}
			}
			sorts = append(sorts, srt)
			terms = append(terms, v.term)
		}
		var rt types.Type = tInt
		if uf.Result != "" {
			if e, err := parser.ParseExpr(uf.Result); err == nil {
				if t := c.tryResolveType(e); t != nil {
					rt = t
				}
			}
		}
		vc.declareOnceRaw("uf_"+name, fmt.Sprintf("(declare-fun uf_%s (%s) %s)", name, strings.Join(sorts, " "), vc.sortOf(rt)))
		vc.assume("ghost function " + name + " is defined by the axioms in the contract file (definitional, by recursion on its integer argument)")
		return specVal{term: fmt.Sprintf("(uf_%s %s)", name, strings.Join(terms, " ")), typ: rt}
	}
	// user predicates / spec functions
	if pd := c.lookupPred(name); pd != nil {
		return c.expandPred(pd, args)
	}
	// pure Go function of the module, inlined
	if c.pkg != nil {
		if fn := vc.eng.funcByName(c.pkg, name); fn != nil {
			vals := make([]string, len(args))
			for i, a := range args {
				vals[i] = c.eval(a).term
			}
			return c.inlinePure(fn, vals)
		}
	}
	fail("unknown spec function %s", name)
	return specVal{}
}

func (c *specCtx) lookupPred(name string) *PredDef {
	if c.pkg != nil {
		if pd, ok := c.vc.eng.contracts.Preds[c.pkg.Path()+"."+name]; ok {
			return pd
		}
	}
	for _, pd := range c.vc.eng.contracts.Preds {
		if pd.Name == name {
			return pd
		}
	}
	return nil
}

func (c *specCtx) expandPred(pd *PredDef, args []ast.Expr) specVal {
	if len(args) != len(pd.Params) {
		fail("%s expects %d arguments", pd.Name, len(pd.Params))
	}
	if c.depth > 12 {
		fail("predicate expansion too deep at %s", pd.Name)
	}
	n := *c
	n.depth = c.depth + 1
	n.bound = map[string]specVal{}
	// predicate bodies see only their parameters (plus enclosing quantifier variables)
	for k, v := range c.bound {
		n.bound[k] = v
	}
	for i, p := range pd.Params {
		n.bound[p.Name] = c.eval(args[i])
		// give untyped args the declared type when available
		if t := c.tryResolveType(p.Type); t != nil {
			v := n.bound[p.Name]
			if bt, ok := v.typ.(*types.Basic); !ok || bt.Info()&types.IsUntyped != 0 || v.typ == nil {
				v.typ = t
			}
			if _, isI := t.Underlying().(*types.Interface); !isI {
				v.typ = t
			}
			n.bound[p.Name] = v
		}
	}
	n.block = nil
	// parameters shadow function params: evaluate with a frame-less name lookup
	n.fr = &Frame{fn: c.fr.fn, env: c.fr.env, locs: c.fr.locs, tuples: c.fr.tuples, free: c.fr.free, freeLoc: c.fr.freeLoc, closures: c.fr.closures, specEnv: nil}
	n.fr = predFrame(c.fr)
	src := desugar(pd.Body)
	e, err := parser.ParseExpr(src)
	if err != nil {
		fail("parse body of %s: %v", pd.Name, err)
	}
	if pd.Pkg != "" {
		if p := c.vc.eng.typesPkg(pd.Pkg); p != nil {
			n.pkg = p
		}
	}
	return n.eval(e)
}

func predFrame(fr *Frame) *Frame {
	nf := *fr
	nf.specEnv = nil
	return &nf
}

func (c *specCtx) tryResolveType(e ast.Expr) (t types.Type) {
	defer func() {
		if r := recover(); r != nil {
			t = nil
		}
	}()
	return c.resolveType(e)
}

func (c *specCtx) convert(v specVal, t types.Type) specVal {
	vc := c.vc
	_, _, fromInt := intRange(v.typ)
	_, _, toInt := intRange(t)
	fs := vc.sortOfVal(v)
	switch {
	case toInt && (fromInt || fs == "Int"):
		if bt, ok := v.typ.(*types.Basic); ok && bt.Info()&types.IsUntyped != 0 && isNumeral(v.term) {
			return specVal{term: v.term, typ: t}
		}
		// specification arithmetic is mathematical, so even a same-type conversion must wrap;
		// only heap reads / parameters (atoms or selects) are known to be in range already
		if fromInt && (isAtom(v.term) || strings.HasPrefix(v.term, "(select ")) {
			flo, fhi, _ := intRange(v.typ)
			tlo, thi, _ := intRange(t)
			if cmpBig(tlo, flo) <= 0 && cmpBig(fhi, thi) <= 0 {
				return specVal{term: v.term, typ: t}
			}
		}
		mod, signed, _ := intModulus(t)
		if signed {
			return specVal{term: fmt.Sprintf("(wraps %s %s)", v.term, mod), typ: t}
		}
		return specVal{term: fmt.Sprintf("(wrapu %s %s)", v.term, mod), typ: t}
	case toInt && fs == "Real":
		return specVal{term: fmt.Sprintf("(rtrunc %s)", v.term), typ: t}
	case vc.sortOf(t) == "Real" && fs == "Int":
		return specVal{term: fmt.Sprintf("(to_real %s)", v.term), typ: t}
	}
	return specVal{term: v.term, typ: t}
}

func (c *specCtx) methodOrPkgCall(f *ast.SelectorExpr, args []ast.Expr) specVal {
	vc := c.vc
	if id, ok := f.X.(*ast.Ident); ok {
		if _, bound := c.lookupName(id.Name); !bound {
			if p := c.importedPkg(id.Name); p != nil {
				// conversion to imported type, e.g. time.Duration(x)
				if o := p.Scope().Lookup(f.Sel.Name); o != nil {
					if tn, ok := o.(*types.TypeName); ok && len(args) == 1 {
						return c.convert(c.eval(args[0]), tn.Type())
					}
				}
				if pd, ok := vc.eng.contracts.Preds[p.Path()+"."+f.Sel.Name]; ok {
					return c.expandPred(pd, args)
				}
				if fn := vc.eng.funcByName(p, f.Sel.Name); fn != nil {
					vals := make([]string, len(args))
					for i, a := range args {
						vals[i] = c.eval(a).term
					}
					return c.inlinePure(fn, vals)
				}
				fail("unknown function %s.%s", id.Name, f.Sel.Name)
			}
		}
	}
	recv := c.eval(f.X)
	vals := []string{recv.term}
	for _, a := range args {
		vals = append(vals, c.eval(a).term)
	}
	// interface method: dispatch by inlining each implementer
	if it, ok := recv.typ.Underlying().(*types.Interface); ok {
		var alt []string
		var rt types.Type
		for _, t := range vc.eng.knownTypes() {
			if !types.Implements(t, it) {
				continue
			}
			m := vc.eng.prog.LookupMethod(t, c.pkgFor(recv.typ), f.Sel.Name)
			if m == nil {
				continue
			}
			a2 := append([]string{fmt.Sprintf("(if_val %s)", recv.term)}, vals[1:]...)
			r := c.inlinePure(m, a2)
			rt = r.typ
			alt = append(alt, fmt.Sprintf("(= (if_type %s) %d)", recv.term, vc.typeID(t)), r.term)
		}
		if len(alt) == 0 {
			fail("no implementers for %s.%s", recv.typ, f.Sel.Name)
		}
		term := alt[len(alt)-1]
		for i := len(alt) - 4; i >= 0; i -= 2 {
			term = fmt.Sprintf("(ite %s %s %s)", alt[i], alt[i+1], term)
		}
		return specVal{term: term, typ: rt}
	}
	obj, _, _ := types.LookupFieldOrMethod(recv.typ, true, c.pkgFor(recv.typ), f.Sel.Name)
	mo, ok := obj.(*types.Func)
	if !ok {
		fail("no method %s on %s", f.Sel.Name, recv.typ)
	}
	fn := vc.eng.prog.FuncValue(mo)
	if fn == nil {
		fail("no SSA for method %s", f.Sel.Name)
	}
	return c.inlinePure(fn, vals)
}

var resultDefRe = regexp.MustCompile(`^result\s*==\s*(.+)$`)

// inlinePure evaluates a Go function symbolically on a scratch copy of the state and returns
// its (first) result; state changes are discarded and its safety obligations are not recorded.
func (c *specCtx) inlinePure(fn *ssa.Function, args []string) specVal {
	vc := c.vc
	if res, ok := vc.modelCall(c.fr, c.st.clone(), fn, args, nil, token.NoPos); ok {
		if len(res) > 0 {
			return specVal{term: res[0], typ: fn.Signature.Results().At(0).Type()}
		}
	}
	// a function under contract whose postcondition defines its result (ensures result == E) is used
	// through that definition, as at a call site in code (its body is verified against it separately)
	if cc := vc.eng.contracts.lookupFn(fn); cc != nil && fn != vc.root {
		for _, e := range cc.Ensures {
			m := resultDefRe.FindStringSubmatch(e)
			if m == nil || strings.Contains(m[1], "==>") || strings.Contains(m[1], "old(") || strings.Contains(m[1], "calls(") {
				continue
			}
			cf := vc.newFrame(fn, c.fr.depth+1)
			for i, p := range fn.Params {
				if i < len(args) {
					cf.env[p] = args[i]
				}
			}
			vc.inSpec++
			t, typ, err := vc.specTerm(cf, c.st, m[1], nil)
			vc.inSpec--
			if err == nil {
				_ = typ
				return specVal{term: t, typ: fn.Signature.Results().At(0).Type()}
			}
		}
	}
	if len(fn.Blocks) == 0 {
		fail("function %s has no body", fn.Name())
	}
	saveObl := len(vc.obls)
	saveOrd := map[string]int{}
	for k, v := range vc.ordinals {
		saveOrd[k] = v
	}
	nf := vc.newFrame(fn, c.fr.depth+1)
	st := c.st.clone()
	st.pc = "true"
	vc.inSpec++
	_, res := vc.execFunction(nf, st, args)
	vc.inSpec--
	vc.obls = vc.obls[:saveObl]
	vc.ordinals = saveOrd
	if len(res) == 0 {
		fail("function %s has no result", fn.Name())
	}
	return specVal{term: res[0], typ: fn.Signature.Results().At(0).Type()}
}

// ------------------------------------------------------------------ modifies targets

// havocTarget havocs one modifies target at a call site (evaluated in the callee's frame cf).
func (vc *VC) havocTarget(cf *Frame, st, pre *State, target string) {
	target = strings.TrimSpace(target)
	if target == "" {
		return
	}
	// forms: T.f (whole field of all objects), x.f (field of one object), x.f[*] (elements), ghost names
	if strings.HasPrefix(target, "ghost ") {
		vc.havocSV(st, strings.TrimSpace(target[6:]))
		return
	}
	if strings.HasPrefix(target, "*") {
		// *x: the object x points to (every field of a struct, or the cell of a non-struct)
		inner := strings.TrimSpace(target[1:])
		v, err := vc.specEval(cf, pre, pre, inner, nil)
		if err != nil {
			vc.unsupportedf("modifies %s: %v", target, err)
			return
		}
		pt, ok := v.typ.Underlying().(*types.Pointer)
		if !ok {
			vc.unsupportedf("modifies %s: not a pointer", target)
			return
		}
		if isStructLike(pt.Elem()) {
			for _, f := range structFieldNames(pt.Elem()) {
				vc.havocTarget(cf, st, pre, inner+"."+f)
			}
			return
		}
		sv := vc.cellSV(pt.Elem())
		nv := vc.fresh(vc.sortOf(pt.Elem()), "hv_cell")
		vc.set(st, sv, fmt.Sprintf("(store %s %s %s)", vc.get(st, sv), v.term, nv))
		vc.typeFacts(st, nv, pt.Elem())
		if vc.frameFr != nil {
			vc.assignCheck(vc.frameFr, st, sv, v.term, vc.framePos)
		}
		return
	}
	if strings.HasSuffix(target, "[*]") {
		inner := strings.TrimSuffix(target, "[*]")
		v, err := vc.specEval(cf, pre, pre, inner, nil)
		if err != nil {
			vc.unsupportedf("modifies %s: %v", target, err)
			return
		}
		if mt, ok := v.typ.Underlying().(*types.Map); ok {
			d, vv := vc.mapSV(mt)
			for _, sv := range []string{d, vv} {
				na := vc.fresh(strings.TrimSuffix(strings.TrimPrefix(vc.svSort[sv], "(Array Int "), ")"), "hv_map")
				vc.set(st, sv, fmt.Sprintf("(store %s %s %s)", vc.get(st, sv), v.term, na))
				if vc.frameFr != nil {
					vc.assignCheck(vc.frameFr, st, sv, v.term, vc.framePos)
				}
			}
			return
		}
		sl, ok := v.typ.Underlying().(*types.Slice)
		if !ok {
			vc.unsupportedf("modifies %s: not a slice or map", target)
			return
		}
		ev := vc.elemSV(sl.Elem())
		na := vc.fresh(fmt.Sprintf("(Array Int %s)", vc.sortOf(sl.Elem())), "hv_elems")
		vc.set(st, ev, fmt.Sprintf("(store %s (s_arr %s) %s)", vc.get(st, ev), v.term, na))
		if vc.frameFr != nil {
			vc.assignCheck(vc.frameFr, st, ev, fmt.Sprintf("(s_arr %s)", v.term), vc.framePos)
		}
		return
	}
	i := strings.LastIndex(target, ".")
	if i < 0 {
		vc.unsupportedf("modifies %s: unsupported form", target)
		return
	}
	baseS, field := target[:i], target[i+1:]
	// whole-field form: TypeName.field
	if t := vc.eng.lookupNamedType(cf.fn, baseS); t != nil {
		svs := vc.svsOfField(t, field)
		if stt, ok := t.Underlying().(*types.Struct); ok {
			for i := 0; i < stt.NumFields(); i++ {
				if stt.Field(i).Name() == field {
					if mt, ok := stt.Field(i).Type().Underlying().(*types.Map); ok {
						d, v := vc.mapSV(mt)
						svs = append(svs, d, v)
					}
				}
			}
		}
		for _, sv := range svs {
			vc.havocSV(st, sv)
			if vc.frameFr != nil {
				vc.assignCheckWhole(vc.frameFr, st, sv, vc.framePos)
			}
		}
		return
	}
	v, err := vc.specEval(cf, pre, pre, baseS, nil)
	if err != nil {
		vc.unsupportedf("modifies %s: %v", target, err)
		return
	}
	bt := v.typ
	if pt, ok := bt.Underlying().(*types.Pointer); ok {
		bt = pt.Elem()
	}
	obj, path, _ := types.LookupFieldOrMethod(bt, true, nil, field)
	if obj == nil {
		// unexported field of another package: retry with its package
		if n, ok := bt.(*types.Named); ok {
			obj, path, _ = types.LookupFieldOrMethod(bt, true, n.Obj().Pkg(), field)
		}
	}
	if _, ok := obj.(*types.Var); !ok {
		vc.unsupportedf("modifies %s: no such field", target)
		return
	}
	cur, curT := v.term, bt
	for k, idx := range path {
		if pt, ok := curT.Underlying().(*types.Pointer); ok {
			curT = pt.Elem()
		}
		loc := vc.fieldLoc(cur, curT, idx)
		ft := curT.Underlying().(*types.Struct).Field(idx).Type()
		if k == len(path)-1 {
			if loc.kind == "sub" {
				vc.havocStruct(st, loc.subRef, ft)
				if vc.frameFr != nil {
					ms := map[string]bool{}
					vc.modStruct(ft, ms)
					for sv := range ms {
						vc.assignCheck(vc.frameFr, st, sv, loc.subRef, vc.framePos)
					}
				}
			} else {
				h := vc.fresh(vc.sortOf(ft), "hv_"+field)
				vc.typeFacts(st, h, ft)
				vc.writeLoc(st, loc, h)
				if vc.frameFr != nil {
					vc.assignCheck(vc.frameFr, st, loc.sv, loc.base, vc.framePos)
				}
				if mt, ok := ft.Underlying().(*types.Map); ok {
					// contents of a map-typed field may change
					d, vv := vc.mapSV(mt)
					mref := vc.readLoc(pre, loc)
					for _, sv := range []string{d, vv} {
						na := vc.fresh(strings.TrimPrefix(strings.TrimSuffix(vc.svSort[sv], ")"), "(Array Int "), "hv_map")
						vc.set(st, sv, fmt.Sprintf("(store %s %s %s)", vc.get(st, sv), mref, na))
					}
				}
			}
			return
		}
		if loc.kind == "sub" {
			cur = loc.subRef
		} else {
			cur = vc.readLoc(pre, loc)
		}
		curT = ft
	}
}

func (vc *VC) svsOfField(t types.Type, field string) []string {
	st, ok := t.Underlying().(*types.Struct)
	if !ok {
		return nil
	}
	for i := 0; i < st.NumFields(); i++ {
		if st.Field(i).Name() == field {
			ft := st.Field(i).Type()
			if isStructLike(ft) {
				out := map[string]bool{}
				vc.modStruct(ft, out)
				var r []string
				for k := range out {
					r = append(r, k)
				}
				return r
			}
			sv, _ := vc.fieldSV(t, i)
			return []string{sv}
		}
	}
	return nil
}

// modTargetSVs: the state variables a modifies target may touch (for loop mod sets).
func (vc *VC) modTargetSVs(callee *ssa.Function, target string) []string {
	target = strings.TrimSpace(target)
	if strings.HasPrefix(target, "ghost ") {
		return []string{strings.TrimSpace(target[6:])}
	}
	if strings.HasPrefix(target, "*") {
		inner := strings.TrimSpace(target[1:])
		t := vc.eng.staticTypeOf(callee, inner)
		if t == nil {
			return []string{"*"}
		}
		pt, ok := t.Underlying().(*types.Pointer)
		if !ok {
			return []string{"*"}
		}
		if isStructLike(pt.Elem()) {
			var out []string
			for _, f := range structFieldNames(pt.Elem()) {
				out = append(out, vc.modTargetSVs(callee, inner+"."+f)...)
			}
			return out
		}
		return []string{vc.cellSV(pt.Elem())}
	}
	if strings.HasSuffix(target, "[*]") {
		// element heap of some slice type: find by evaluating the type statically
		t := vc.eng.staticTypeOf(callee, strings.TrimSuffix(target, "[*]"))
		if sl, ok := t.(*types.Slice); ok {
			return []string{vc.elemSV(sl.Elem())}
		}
		if t != nil {
			if sl, ok := t.Underlying().(*types.Slice); ok {
				return []string{vc.elemSV(sl.Elem())}
			}
		}
		return []string{"*"}
	}
	i := strings.LastIndex(target, ".")
	if i < 0 {
		return nil
	}
	baseS, field := target[:i], target[i+1:]
	if t := vc.eng.lookupNamedType(callee, baseS); t != nil {
		return vc.svsOfField(t, field)
	}
	t := vc.eng.staticTypeOf(callee, baseS)
	if t == nil {
		return []string{"*"}
	}
	if pt, ok := t.Underlying().(*types.Pointer); ok {
		t = pt.Elem()
	}
	// walk embedded path
	var pkg *types.Package
	if n, ok := t.(*types.Named); ok {
		pkg = n.Obj().Pkg()
	}
	obj, path, _ := types.LookupFieldOrMethod(t, true, pkg, field)
	if obj == nil {
		return []string{"*"}
	}
	curT := t
	for k, idx := range path {
		if pt, ok := curT.Underlying().(*types.Pointer); ok {
			curT = pt.Elem()
		}
		if k == len(path)-1 {
			f := curT.Underlying().(*types.Struct).Field(idx)
			return vc.svsOfField(curT, f.Name())
		}
		curT = curT.Underlying().(*types.Struct).Field(idx).Type()
	}
	return nil
}

func isNumeral(t string) bool {
	if t == "" {
		return false
	}
	for _, r := range t {
		if r < '0' || r > '9' {
			return false
		}
	}
	return true
}

func structFieldNames(t types.Type) []string {
	st, ok := t.Underlying().(*types.Struct)
	if !ok {
		return nil
	}
	var out []string
	for i := 0; i < st.NumFields(); i++ {
		out = append(out, st.Field(i).Name())
	}
	return out
}
