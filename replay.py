"""Replay of solver counterexamples against the real code.

For functions that have a template in replay_templates/<func>.tmpl the model's entry values are
substituted into a Go test (an in-package test injected with `go test -overlay`, nothing is written
into /repo). The test evaluates the property's expectation for that function concretely; if the test
fails, the counterexample is confirmed on the real code."""
import json, os, re, subprocess, tempfile

VERIF = os.path.dirname(os.path.abspath(__file__))

PKGDIR = {  # function key prefix -> package directory relative to the repo
}

def _pkg_of(o):
    return o.get("pkgdir", ".")

def try_replay(prop, o, path, repo, env):
    func = o["func"]
    tmpl = os.path.join(VERIF, "replay_templates", func.replace("$", "_") + ".tmpl")
    if not os.path.exists(tmpl):
        return False, "no replay template for " + func + " (counterexample not replayed)"
    model = o.get("model") or {}
    if not model:
        return False, "the solver gave no model for this obligation (unknown/timeout): nothing to replay"
    src = open(tmpl).read()
    header = src.split("\n", 1)[0]
    pkgdir = "."
    m = re.match(r"// pkgdir: (\S+)", header)
    if m:
        pkgdir = m.group(1)
    missing = []
    def sub(mm):
        k = mm.group(1)
        if k not in model:
            # len(x) of a slice-typed entry value can be read off the slice header (mk_slice array offset len cap)
            mlen = re.fullmatch(r"len\((\w+)\)", k)
            if mlen and mlen.group(1) in model:
                mh = re.fullmatch(r"\(mk_slice (-?\d+) (-?\d+) (-?\d+) (-?\d+)\)", model[mlen.group(1)].strip())
                if mh:
                    return mh.group(3)
            missing.append(k)
            return "0"
        v = model[k]
        if v in ("true", "false"):
            return v
        if re.fullmatch(r"-?\d+", v):
            return v
        missing.append(k + "=" + v)
        return "0"
    code = re.sub(r"\{\{([^}]+)\}\}", sub, src)
    if missing:
        return False, "model lacks scalar values for: " + ", ".join(missing)
    gofile = path[:-4] + "_replay_test.go"
    open(gofile, "w").write(code)
    ov = {"Replace": {os.path.join(repo, pkgdir, "zz_gvc_replay_test.go"): gofile}}
    ovf = path[:-4] + "_overlay.json"
    json.dump(ov, open(ovf, "w"))
    cmd = ["go", "test", "-overlay", ovf, "-vet=off", "-count=1", "-timeout", "60s", "-run", "^TestGvcReplay$", "."]
    try:
        p = subprocess.run(cmd, cwd=os.path.join(repo, pkgdir), env=env, stdout=subprocess.PIPE, stderr=subprocess.STDOUT, text=True, timeout=180)
    except subprocess.TimeoutExpired:
        return False, "replay timed out"
    out = p.stdout[-3000:]
    confirmed = p.returncode != 0 and "--- FAIL: TestGvcReplay" in p.stdout
    verdict = "CONFIRMED on the real code (the replay test fails)" if confirmed else "not confirmed (the replay test passes or did not run)"
    return confirmed, f"$ {' '.join(cmd)}\n{out}\n=> {verdict}\nreplay test: {gofile}"
