#!/bin/bash
# usage: seeded_store.sh <prop> <worktree-suffix> <N>   (after seeded_verify.sh confirmed the seed)
set -eu
id=$1; sfx=$2; n=$3
out=/tmp/seed_${id}${sfx}_out; wt=/tmp/seed_${id}${sfx}
d=/verif/seeded/${id}-${n}
mkdir -p $d
cp $out/patch.diff $d/patch.diff
cp $out/meta.json $d/meta.json
for f in $out/*_test.go; do cp $f $d/$(basename $f).txt; done
git -C /repo worktree remove --force $wt || true
git -C /repo worktree prune
rm -rf $out
ls $d
