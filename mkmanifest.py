#!/usr/bin/env python3
"""Regenerates /verif/MANIFEST.json from the table below and from /repo's hook commits."""
import json, subprocess, os

VERIF = os.path.dirname(os.path.abspath(__file__))

NOTE_COMMON = ("Trusted base: go/packages+go/ssa (x/tools v0.29.0), gvc (own VC generator), z3 4.8.12 / z3 5.1.0 / cvc5 1.0; "
               "assumed contracts on dependencies and every modelling assumption used by a run are listed in the evidence file.")

# property -> (claimed text, design ref, level note, technique)
CLAIMED = {
}

NOT_YET = "not covered yet by a discharged contract set (work in progress; see DESIGN.md section 5)"

NOT_APPLICABLE = {
}

ALL = ["C%02d" % i for i in range(1, 21)]


def hook_commits():
    out = subprocess.run(["git", "-C", "/repo", "log", "--format=%H %s"], stdout=subprocess.PIPE, text=True).stdout
    return [l.split()[0] for l in out.splitlines() if l.split(" ", 1)[1].startswith("verif:")]


def main():
    import manifest_table as T
    checks = []
    for pid in ALL:
        if pid in T.CLAIMED:
            c = T.CLAIMED[pid]
            checks.append({
                "property_id": pid,
                "quick_cmd": f"./check {pid}",
                "thorough_cmd": f"./check {pid} --thorough",
                "evidence_file": f"/verif/evidence/{pid}.json",
                "replay_cmd_template": "cat {path}",
                "engine": "gvc",
                "level_claimed": {"category": "proof", "text": c["text"], "design_ref": c.get("design_ref", "DESIGN.md §5 " + pid)},
                "level_note": c["note"] + " " + NOTE_COMMON,
                "technique": c.get("technique", "contract-based deductive verification: WP/symbolic-execution VCs over go/ssa of the real functions, discharged by z3/cvc5"),
            })
    na = []
    for pid in ALL:
        if pid not in T.CLAIMED:
            na.append({"property_id": pid, "reason": T.NOT_APPLICABLE.get(pid, NOT_YET)})
    m = {
        "version": 1,
        "setup_cmd": "cd /verif/gvc && GOFLAGS=-mod=mod GOPROXY=off GOSUMDB=off GOTOOLCHAIN=local go build -o /verif/bin/gvc .",
        "hooks": {
            "guard": "verif",
            "enable": "go build tag 'verif': gvc loads /repo with -tags=verif; the tag only adds comment-only contract files (verif_contracts.go) and small lemma harness functions (verif_lemmas.go) that call the real functions; no production code path changes",
            "baseline_off_cmd": "cd /repo && GOFLAGS=-mod=mod GOPROXY=off go test -json -vet=off -count=1 -timeout 25m ./...",
            "source_commits": hook_commits(),
            "add_only": True,
        },
        "engines": [{
            "name": "gvc",
            "path": "/verif/gvc",
            "serves_properties": sorted(T.CLAIMED.keys()),
            "kind_free_text": "verification-condition generator for Go written for this task: forward symbolic execution with state merging over go/ssa (equivalent to WP over the passified CFG), loops cut at invariants, calls replaced by callee contracts, ghost state for locks/condition variables/call events; one SMT-LIB query per obligation, raced on z3 4.8.12, z3 5.1.0 and cvc5 1.0",
        }],
        "checks": checks,
        "not_applicable": na,
        "notes": "Contracts live in /repo/**/verif_contracts.go (build tag verif, comment-only). known_findings.txt lists recorded findings and fixed: entries. See DESIGN.md.",
    }
    json.dump(m, open(os.path.join(VERIF, "MANIFEST.json"), "w"), indent=1)
    print("MANIFEST.json written:", len(checks), "checks,", len(na), "not_applicable")


if __name__ == "__main__":
    main()
