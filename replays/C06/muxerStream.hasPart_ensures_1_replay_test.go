// pkgdir: .
package gohlslib

import "testing"

// Replay of a counterexample for muxerStream.hasPart: a Low-Latency window of 1 listed
// fMP4 segments ending at id nextSegmentID-1, the last listed segment with 1 part(s),
// the open segment with 0 part(s); request (msn=2455, part=1).
func TestGvcReplay(t *testing.T) {
	next := uint64(2456)
	n := 1
	lastParts := 1
	openParts := 0
	if n < 0 || n > 64 || lastParts < 1 || lastParts > 1000 || openParts < 0 || openParts > 1000 || uint64(n) > next {
		t.Skip("model outside the replayable range")
	}
	s := &muxerStream{nextSegmentID: next}
	for i := 0; i < n; i++ {
		seg := &muxerSegmentFMP4{id: next - uint64(n) + uint64(i)}
		k := 1
		if i == n-1 {
			k = lastParts
		}
		for j := 0; j < k; j++ {
			seg.parts = append(seg.parts, &muxerPart{})
		}
		s.segments = append(s.segments, seg)
	}
	open := &muxerSegmentFMP4{id: next}
	for j := 0; j < openParts; j++ {
		open.parts = append(open.parts, &muxerPart{})
	}
	s.nextSegment = open
	M, P := uint64(2455), uint64(1)
	// the property's reading: published(norm(M, P))
	want := false
	if M == next {
		want = P < uint64(openParts)
	} else {
		for i, sg := range s.segments {
			f := sg.(*muxerSegmentFMP4)
			if f.id == M {
				want = P < uint64(len(f.parts)) || i+1 < len(s.segments) || openParts >= 1
			}
		}
	}
	if got := s.hasPart(M, P); got != want {
		t.Fatalf("hasPart(%d,%d) = %v, the property requires %v (window %d..%d, open parts %d)", M, P, got, want, next-uint64(n), next-1, openParts)
	}
}
