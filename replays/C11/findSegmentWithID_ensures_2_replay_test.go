// pkgdir: .
package gohlslib

import (
	"testing"

	"github.com/bluenviron/gohlslib/v2/pkg/playlist"
)

func TestGvcReplay(t *testing.T) {
	n := 14
	if n < 0 || n > 100000 {
		t.Skip("model outside the replayable range")
	}
	segs := make([]*playlist.MediaSegment, n)
	for i := range segs {
		segs[i] = &playlist.MediaSegment{}
	}
	seqNo, id := 0, 11
	seg, idx, inv := findSegmentWithID(seqNo, segs, id)
	d := int64(id) - int64(seqNo)
	if d < 0 || d >= int64(n) {
		if seg != nil || idx != 0 || inv != 0 {
			t.Fatalf("out of window: got (%v,%d,%d), want (nil,0,0)", seg, idx, inv)
		}
		return
	}
	if seg != segs[d] || int64(idx) != d || int64(inv) != int64(n)-d {
		t.Fatalf("findSegmentWithID(%d, len %d, %d) = (idx %d, distance-from-end %d), the property requires (idx %d, distance %d)", seqNo, n, id, idx, inv, d, int64(n)-d)
	}
}
