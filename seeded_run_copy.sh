#!/bin/bash
# usage: seeded_run_copy.sh <seed-dir-name> [prop]
# Like seeded_run.sh but works on a scratch copy of /repo's committed tree (HEAD) under /tmp, so that it can run
# while /repo is being edited. The copy is removed afterwards.
set -u
d=/verif/seeded/$1
prop=${2:-${1%%-*}}
w=/tmp/seedrepo_$1
rm -rf $w; mkdir -p $w
git -C /repo archive HEAD | tar -x -C $w
rm -rf $w/examples
( cd $w && git init -q . 2>/dev/null && git apply $d/patch.diff ) || { echo "seed $1: patch does not apply"; rm -rf $w; exit 8; }
cd /verif && VERIF_WORK_DIR=/tmp/seedwork_$1 VERIF_REPO=$w VERIF_EVIDENCE_DIR=/tmp/seed_evidence VERIF_REPLAY_DIR=/tmp/seed_replays_copy ./check $prop > /tmp/seedrun_$1.log 2>&1; rc=$?
rm -rf $w /tmp/seedwork_$1
echo "seed $1 prop $prop: check exit=$rc $(grep -c '^VIOLATION' /tmp/seedrun_$1.log) violation(s)"
