#!/bin/bash
# usage: seeded_verify.sh <dir-with-patch.diff+demo> <worktree>
# Confirms: suite passes with patch; demo fails with patch; demo passes without patch.
set -u
export GOFLAGS=-mod=mod GOPROXY=off GOSUMDB=off GOTOOLCHAIN=local
out=$1; wt=$2
cd $wt || exit 9
demo=$(ls $out/*_test.go | head -1)
demoname=$(grep -o 'func Test[A-Za-z0-9_]*' $demo | sed 's/func //' | paste -sd'|')
pkgdir=$(dirname $(git -C $wt status --porcelain | grep '_test.go' | grep -v '^ D' | awk '{print $2}' | head -1))
echo "demo=$demo test=$demoname pkgdir=$pkgdir"
# state: patch applied + demo present
r1=$(cd $wt/$pkgdir && go test -vet=off -count=1 -timeout 120s -run "^(${demoname})\$" . 2>&1 | grep -E "^(ok|FAIL|---)" | tail -1)
echo "demo with patch: $r1"
git -C $wt apply -R $out/patch.diff || { echo "cannot revert patch"; exit 8; }
r2=$(cd $wt/$pkgdir && go test -vet=off -count=1 -timeout 120s -run "^(${demoname})\$" . 2>&1 | tail -1)
echo "demo without patch: $r2"
git -C $wt apply $out/patch.diff
r3=$(cd $wt && go test -vet=off -count=1 -timeout 10m -skip "^(${demoname})\$" . ./pkg/... 2>&1 | grep -v "^ok" | tail -3)
echo "suite with patch (non-ok lines): [$r3]"
