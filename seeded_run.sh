#!/bin/bash
# usage: seeded_run.sh <seed-dir-name> [prop]   e.g. seeded_run.sh C06-1
# Applies the seeded change to /repo, runs the property's quick check, reverts.
set -u
d=/verif/seeded/$1
prop=${2:-${1%%-*}}
cd /repo || exit 9
if ! git diff --quiet; then echo "/repo has uncommitted changes; refusing"; exit 9; fi
git apply $d/patch.diff || { echo "patch does not apply"; exit 8; }
cd /verif && VERIF_EVIDENCE_DIR=/tmp/seed_evidence VERIF_REPLAY_DIR=/tmp/seed_replays ./check $prop > /tmp/seedrun_$1.log 2>&1; rc=$?
git -C /repo checkout -- .
echo "seed $1 prop $prop: check exit=$rc"; grep -E "^VIOLATION|^KNOWN|^UNDECIDED|obligations=" /tmp/seedrun_$1.log | head -8
