#!/usr/bin/env python3
"""Must-fail corpus: every mutant of the real source listed in mutants.json must fail at least one
obligation of the named function's contract (and, if given, one whose name contains 'expect').
A mutant that verifies means the engine or the contract is vacuous for that behaviour.
usage: run.py [prop]"""
import json, os, subprocess, sys, shutil, tempfile
VERIF = os.path.dirname(os.path.dirname(os.path.abspath(__file__)))
REPO = os.environ.get("VERIF_REPO", "/repo")
def main():
    prop = sys.argv[1] if len(sys.argv) > 1 else None
    muts = json.load(open(os.path.join(VERIF, "selftest", "mutants.json")))
    if prop:
        muts = [m for m in muts if prop in m["props"]]
    tmp = tempfile.mkdtemp(prefix="gvcmut")
    try:
        files = subprocess.run(["git", "-C", REPO, "ls-files", "-co", "--exclude-standard"], stdout=subprocess.PIPE, text=True).stdout.split()
        files = [f for f in files if not f.startswith("examples/")]
        subprocess.run(["rsync", "-a", "--files-from=-", REPO + "/", tmp + "/"], input="\n".join(files), text=True, check=True)
        bad = 0
        for m in muts:
            p = os.path.join(tmp, m["file"])
            src = open(p).read()
            if m["old"] not in src:
                print(f"SELFTEST-STALE {m['id']}: pattern not found in {m['file']} (source changed); skipped")
                continue
            open(p, "w").write(src.replace(m["old"], m["new"], 1))
            r = subprocess.run([os.path.join(VERIF, "bin", "gvc"), "-repo", tmp, "-func", m["func"]], stdout=subprocess.PIPE, stderr=subprocess.STDOUT, text=True).stdout
            open(p, "w").write(src)
            fails = [l.split()[2] for l in r.splitlines() if l.startswith("OBL") and l.split()[1] in ("failed", "failed-nomodel", "vacuous")]
            hit = [f for f in fails if m.get("expect", "") in f]
            if "LOAD ERROR" in r:
                print(f"SELFTEST-ERROR {m['id']}: mutant does not compile"); bad += 1
            elif not hit:
                print(f"SELFTEST-MISS {m['id']} ({m['what']}): verified although it must fail; failing={fails[:3]}"); bad += 1
            else:
                print(f"selftest ok {m['id']}: {len(fails)} obligation(s) fail, e.g. {hit[0]}")
        print(f"selftest: {len(muts)} mutants, {bad} missed")
        sys.exit(1 if bad else 0)
    finally:
        shutil.rmtree(tmp, ignore_errors=True)
if __name__ == "__main__":
    main()
