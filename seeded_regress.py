#!/usr/bin/env python3
"""Fast regression over the stored seeded changes: each is applied to a scratch copy of /repo's HEAD and the
contracts of the functions its patch touches are checked first (property-filtered); only if nothing fails there is
the whole property check run. usage: seeded_regress.py [seed ...]"""
import os, re, subprocess, sys, shutil, tempfile
VERIF = os.path.dirname(os.path.abspath(__file__))
ENV = dict(os.environ, GOFLAGS="-mod=mod", GOPROXY="off", GOSUMDB="off", GOTOOLCHAIN="local")
FN = re.compile(r"func (?:\(\w+ \*?(\w+)\) )?(\w+)\(")
def touched(patch):
    out = []
    for line in open(patch):
        if line.startswith("@@") or (line[:1] in "+- " and "func " in line):
            m = FN.search(line)
            if m:
                k = (m.group(1) + "." if m.group(1) else "") + m.group(2)
                if k not in out:
                    out.append(k)
    return out
def main():
    names = sys.argv[1:] or sorted(os.listdir(os.path.join(VERIF, "seeded")))
    for n in names:
        prop = n.split("-")[0]
        patch = os.path.join(VERIF, "seeded", n, "patch.diff")
        w = tempfile.mkdtemp(prefix="gvcreg_")
        try:
            subprocess.run(f"git -C /repo archive HEAD | tar -x -C {w} && rm -rf {w}/examples", shell=True, check=True)
            if subprocess.run(["git", "apply", patch], cwd=w).returncode != 0:
                print(f"seed {n}: patch does not apply", flush=True); continue
            verdict = None
            for f in touched(patch):
                r = subprocess.run([os.environ.get("VERIF_GVC") or os.path.join(VERIF, "bin", "gvc"), "-repo", w, "-prop", prop, "-func", f, "-tier", "quick", "-work", os.path.join(w, ".q")],
                                   env=ENV, stdout=subprocess.PIPE, stderr=subprocess.STDOUT, text=True).stdout
                fails = [l.split()[2] for l in r.splitlines() if l.startswith("OBL") and l.split()[1] in ("failed", "failed-nomodel", "vacuous")]
                if fails:
                    verdict = f"reported (fast path, contracts of {f}): {fails[0]}" + (f" (+{len(fails)-1})" if len(fails) > 1 else "")
                    break
            if verdict is None:
                env = dict(ENV, VERIF_REPO=w, VERIF_NO_SELFTEST="1", VERIF_TIER="quick", VERIF_WORK_DIR=os.path.join(w, ".work"),
                           VERIF_EVIDENCE_DIR=os.path.join(w, ".ev"), VERIF_REPLAY_DIR=os.path.join(w, ".replays"))
                r = subprocess.run([sys.executable, os.path.join(VERIF, "check"), prop], env=env, stdout=subprocess.PIPE, stderr=subprocess.STDOUT, text=True)
                v = [l for l in r.stdout.splitlines() if l.startswith("VIOLATION")]
                if r.returncode == 1 and v:
                    verdict = "reported (full check): " + v[0].split("replay=")[1].split("/")[-1][:90]
                elif r.returncode == 2:
                    verdict = "UNDECIDED (exit 2)"
                else:
                    verdict = f"MISSED (exit {r.returncode})"
            print(f"seed {n}: {verdict}", flush=True)
        finally:
            shutil.rmtree(w, ignore_errors=True)
if __name__ == "__main__":
    main()
