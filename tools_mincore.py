#!/usr/bin/env python3
# usage: tools_mincore.py <query.smt2>  -- finds a small set of asserts making a cover query unsat
import sys,subprocess
f=sys.argv[1]
lines=open(f).read().split('\n')
tail_start=[i for i,l in enumerate(lines) if l.startswith('(assert pc') or l.startswith('(assert (not ') or l.startswith('(assert true')][-2 if lines[-1]=='' else -2]
# take the last two asserts as the goal part
idx=[i for i,l in enumerate(lines) if l.startswith('(assert')]
goal=idx[-2:]
pcline=lines[goal[0]]
body=lines[:goal[0]]
asserts=[i for i,l in enumerate(body) if l.startswith('(assert')]
def unsat(excl):
    txt='\n'.join(l for i,l in enumerate(body) if i not in excl)+'\n'+pcline+'\n(check-sat)\n'
    open('/tmp/mincore.smt2','w').write(txt)
    r=subprocess.run(['z3-new','-smt2','-T:20','/tmp/mincore.smt2'],stdout=subprocess.PIPE,text=True).stdout
    return any(l.strip()=='unsat' for l in r.split('\n')[:5])
print(len(asserts),'asserts; full unsat:',unsat(set()))
excl=set()
for i in reversed(asserts):
    excl.add(i)
    if not unsat(excl):
        excl.remove(i)
need=[i for i in asserts if i not in excl]
print(len(need),'needed')
for i in need: print(i, body[i][:600])
